package main

import (
	"encoding/json"
	"fmt"
	"os"
	"path/filepath"
	"sort"
	"strings"
)

type Status int

const (
	Discharged Status = iota
	Violated
	Undecided
)

func (s Status) String() string {
	return [...]string{"discharged", "violated", "undecided"}[s]
}

// Obligation is one rule instance. Key = Rule + " " + Construct identifies it across runs; it
// never contains a line number.
type Obligation struct {
	Rule      string // e.g. "C04/R1"
	Construct string // stable name of the inspected construct
	Status    Status
	Where     string // file:line (for the reader; not part of the key)
	Detail    string // what was established / what is wrong, incl. the witness path
	Trivial   bool   // discharged without any reasoning (e.g. nothing to check at this site)
}

func (o Obligation) Key() string { return o.Rule + " " + o.Construct }

type RuleInfo struct {
	ID    string
	Text  string // the rule, in words
	Floor int    // minimal number of instances confirmed by hand on the pinned tree
}

type Report struct {
	Prop        string
	Tier        string
	Rules       []*RuleInfo
	Obs         []Obligation
	Notes       []string
	Assumptions []string
	Analysed    map[string]int // what was analysed: functions, sites, ...
	Errors      []string       // checker errors (unresolved anchors, floors) -> exit 2
	Extra       map[string]any // additional coverage keys (thorough tier)
}

func (r *Report) rule(id, text string, floor int) *RuleInfo {
	for _, ri := range r.Rules {
		if ri.ID == id {
			return ri
		}
	}
	ri := &RuleInfo{ID: id, Text: text, Floor: floor}
	r.Rules = append(r.Rules, ri)
	return ri
}

func (r *Report) add(o Obligation) { r.Obs = append(r.Obs, o) }

func (r *Report) ok(rule, construct, where, detail string) {
	r.add(Obligation{Rule: rule, Construct: construct, Status: Discharged, Where: where, Detail: detail})
}
func (r *Report) trivial(rule, construct, where, detail string) {
	r.add(Obligation{Rule: rule, Construct: construct, Status: Discharged, Where: where, Detail: detail, Trivial: true})
}
func (r *Report) bad(rule, construct, where, detail string) {
	r.add(Obligation{Rule: rule, Construct: construct, Status: Violated, Where: where, Detail: detail})
}
func (r *Report) undecided(rule, construct, where, detail string) {
	r.add(Obligation{Rule: rule, Construct: construct, Status: Undecided, Where: where, Detail: detail})
}
func (r *Report) note(f string, a ...any)   { r.Notes = append(r.Notes, fmt.Sprintf(f, a...)) }
func (r *Report) errorf(f string, a ...any) { r.Errors = append(r.Errors, fmt.Sprintf(f, a...)) }
func (r *Report) count(what string, n int) {
	if r.Analysed == nil {
		r.Analysed = map[string]int{}
	}
	r.Analysed[what] += n
}

// ---- known findings / assumptions -------------------------------------------------------

type Finding struct {
	Property  string `json:"property"`
	Rule      string `json:"rule"`
	Construct string `json:"construct"`
	What      string `json:"what"`
	Input     string `json:"failing_input,omitempty"`
}

type KnownFile struct {
	Findings []Finding `json:"findings"`
	Fixed    []string  `json:"fixed"`
}

type Assumption struct {
	Rule      string `json:"rule"`
	Construct string `json:"construct"`
	Reason    string `json:"reason"`
}

func loadKnown(verifDir string) (*KnownFile, error) {
	k := &KnownFile{}
	b, err := os.ReadFile(filepath.Join(verifDir, "known_findings.json"))
	if err != nil {
		if os.IsNotExist(err) {
			return k, nil
		}
		return nil, err
	}
	if err := json.Unmarshal(b, k); err != nil {
		return nil, fmt.Errorf("known_findings.json: %v", err)
	}
	return k, nil
}

func loadAssumptions(verifDir string) ([]Assumption, error) {
	var a []Assumption
	b, err := os.ReadFile(filepath.Join(verifDir, "assumptions.json"))
	if err != nil {
		if os.IsNotExist(err) {
			return nil, nil
		}
		return nil, err
	}
	if err := json.Unmarshal(b, &a); err != nil {
		return nil, fmt.Errorf("assumptions.json: %v", err)
	}
	return a, nil
}

// ---- finishing a run ----------------------------------------------------------------------

type ruleStat struct {
	Rule       string `json:"rule"`
	Text       string `json:"text"`
	Instances  int    `json:"instances"`
	Discharged int    `json:"discharged"`
	Violated   int    `json:"violated"`
	Undecided  int    `json:"undecided"`
	Known      int    `json:"known_findings"`
	Floor      int    `json:"floor"`
}

// finish prints the report, writes evidence and replay files and returns the exit code.
func (r *Report) finish(verifDir string, wall float64, seed int, explanation string) int {
	known, err := loadKnown(verifDir)
	if err != nil {
		r.errorf("%v", err)
		known = &KnownFile{}
	}
	assume, err := loadAssumptions(verifDir)
	if err != nil {
		r.errorf("%v", err)
	}
	sort.SliceStable(r.Obs, func(i, j int) bool {
		if r.Obs[i].Rule != r.Obs[j].Rule {
			return r.Obs[i].Rule < r.Obs[j].Rule
		}
		return r.Obs[i].Construct < r.Obs[j].Construct
	})
	// duplicate keys would make known-finding matching ambiguous: make them unique deterministically
	seen := map[string]int{}
	for i := range r.Obs {
		k := r.Obs[i].Key()
		seen[k]++
		if seen[k] > 1 {
			r.Obs[i].Construct = fmt.Sprintf("%s #%d", r.Obs[i].Construct, seen[k])
		}
	}

	stats := map[string]*ruleStat{}
	var order []string
	for _, ri := range r.Rules {
		stats[ri.ID] = &ruleStat{Rule: ri.ID, Text: ri.Text, Floor: ri.Floor}
		order = append(order, ri.ID)
	}
	evDir := filepath.Join(verifDir, "evidence")
	if d := os.Getenv("VERIF_OUT"); d != "" {
		evDir = d // sensitivity runs on scratch copies must not overwrite the evidence of /repo
	}
	replayDir := filepath.Join(evDir, "replay")
	os.MkdirAll(replayDir, 0o755)
	old, _ := filepath.Glob(filepath.Join(replayDir, r.Prop+"-*.txt"))
	for _, f := range old {
		os.Remove(f)
	}

	var violations, knownHits int
	var samples []map[string]string
	distinct := map[string]bool{}
	usedAssumptions := append([]string{}, r.Assumptions...)
	nrep := 0
	for i := range r.Obs {
		o := &r.Obs[i]
		st := stats[o.Rule]
		if st == nil {
			st = &ruleStat{Rule: o.Rule}
			stats[o.Rule] = st
			order = append(order, o.Rule)
		}
		st.Instances++
		if o.Status == Undecided {
			for _, a := range assume {
				if a.Rule == o.Rule && a.Construct == o.Construct {
					o.Status = Discharged
					o.Detail += " [assumed: " + a.Reason + "]"
					usedAssumptions = append(usedAssumptions, fmt.Sprintf("%s %s: %s", a.Rule, a.Construct, a.Reason))
				}
			}
		}
		if v := os.Getenv("VERIF_VERBOSE"); v != "" && (v == "1" || strings.HasPrefix(o.Rule, v)) {
			fmt.Printf("  [%s] %s %s @%s: %s\n", o.Status, o.Rule, o.Construct, o.Where, o.Detail)
		}
		switch o.Status {
		case Discharged:
			st.Discharged++
			if !o.Trivial {
				distinct[o.Key()] = true
				if len(samples) < 12 && (len(samples) == 0 || samples[len(samples)-1]["rule"] != o.Rule || st.Discharged <= 2) {
					samples = append(samples, map[string]string{"rule": o.Rule, "construct": o.Construct, "where": o.Where, "status": "discharged", "detail": o.Detail})
				}
			}
		case Violated, Undecided:
			isKnown := false
			for _, f := range known.Findings {
				if f.Property == r.Prop && f.Rule == o.Rule && f.Construct == o.Construct {
					isKnown = true
					fmt.Printf("KNOWN-FINDING: property=%s %s %s: %s (at %s)\n", r.Prop, o.Rule, o.Construct, f.What, o.Where)
				}
			}
			if isKnown {
				st.Known++
				knownHits++
				continue
			}
			if o.Status == Violated {
				st.Violated++
			} else {
				st.Undecided++
			}
			violations++
			nrep++
			path := filepath.Join(replayDir, fmt.Sprintf("%s-%d.txt", r.Prop, nrep))
			body := fmt.Sprintf("property: %s\nrule: %s\nrule text: %s\nkind: %s\nconstruct: %s\nwhere: %s\ndetail: %s\nreproduce: cd %s && ./run.sh %s %s\n",
				r.Prop, o.Rule, st.Text, o.Status, o.Construct, o.Where, o.Detail, verifDir, r.Prop, r.Tier)
			os.WriteFile(path, []byte(body), 0o644)
			fmt.Printf("%s %s %s at %s: %s\n", strings.ToUpper(o.Status.String()), o.Rule, o.Construct, o.Where, o.Detail)
			fmt.Printf("VIOLATION property=%s replay=%s\n", r.Prop, path)
		}
	}
	// listed findings that no longer fire are reported (they suppress nothing)
	for _, f := range known.Findings {
		if f.Property != r.Prop {
			continue
		}
		hit := false
		for _, o := range r.Obs {
			if o.Rule == f.Rule && o.Construct == f.Construct && o.Status != Discharged {
				hit = true
			}
		}
		if !hit {
			r.note("known finding %s %s no longer reported on this tree", f.Rule, f.Construct)
		}
	}
	var rs []*ruleStat
	for _, id := range order {
		st := stats[id]
		rs = append(rs, st)
		if st.Instances < st.Floor {
			r.errorf("rule %s matched %d instances, below its floor %d: the rule has lost its anchor", id, st.Instances, st.Floor)
		}
		fmt.Printf("rule %-8s instances=%-4d discharged=%-4d violated=%d undecided=%d known=%d floor=%d\n", st.Rule, st.Instances, st.Discharged, st.Violated, st.Undecided, st.Known, st.Floor)
	}
	for _, n := range r.Notes {
		fmt.Println("note:", n)
	}
	for _, e := range r.Errors {
		// an anchor the rules are keyed on is gone, or a rule matched (almost) nothing: the check
		// cannot show the property, so it must not pass.
		fmt.Println("CHECKER-ERROR:", e)
		violations++
		nrep++
		path := filepath.Join(replayDir, fmt.Sprintf("%s-%d.txt", r.Prop, nrep))
		os.WriteFile(path, []byte(fmt.Sprintf("property: %s\nkind: checker-error (unresolved anchor / floor)\ndetail: %s\nreproduce: cd %s && ./run.sh %s %s\n", r.Prop, e, verifDir, r.Prop, r.Tier)), 0o644)
		fmt.Printf("VIOLATION property=%s replay=%s\n", r.Prop, path)
	}
	dischargedTotal := 0
	for _, st := range rs {
		dischargedTotal += st.Discharged
	}
	if len(samples) == 0 {
		for _, o := range r.Obs {
			samples = append(samples, map[string]string{"rule": o.Rule, "construct": o.Construct, "where": o.Where, "status": o.Status.String(), "detail": o.Detail})
			if len(samples) >= 3 {
				break
			}
		}
	}
	ev := map[string]any{
		"property_id": r.Prop,
		"tier":        r.Tier,
		"seed":        seed,
		"level":       "other",
		"coverage": map[string]any{
			"explanation":         explanation,
			"evaluations":         len(r.Obs),
			"distinct_nontrivial": len(distinct),
			"rule":                "one obligation per (rule, construct) enumerated from the resolved program of /repo's working tree; non-trivial = discharged by an argument about the construct (not 'nothing to check here'); distinct = distinct rule+construct keys",
			"obligations":         len(r.Obs),
			"discharged":          dischargedTotal,
			"known_findings":      knownHits,
			"samples":             samples,
			"rules":               rs,
			"analysed":            r.Analysed,
			"notes":               r.Notes,
			"checker_errors":      r.Errors,
			"exhaustive":          false,
		},
		"assumptions": usedAssumptions,
		"wall_s":      wall,
		"violations":  violations,
	}
	for k, v := range r.Extra {
		ev["coverage"].(map[string]any)[k] = v
	}
	b, _ := json.MarshalIndent(ev, "", " ")
	if err := os.WriteFile(filepath.Join(evDir, r.Prop+".json"), append(b, '\n'), 0o644); err != nil {
		fmt.Println("CHECKER-ERROR: cannot write evidence:", err)
		return 2
	}
	fmt.Printf("property=%s tier=%s obligations=%d discharged=%d known=%d violations=%d wall=%.1fs\n", r.Prop, r.Tier, len(r.Obs), dischargedTotal, knownHits, violations, wall)
	if violations > 0 {
		return 1
	}
	return 0
}
