package main

import (
	"fmt"
	"go/constant"
	"go/token"
	"go/types"
	"sort"
	"strings"

	"golang.org/x/tools/go/ssa"
)

// VALUE / SHAPE — a field-based value-flow analysis of the parser (package memefish): for every SSA
// value that can carry an ast node, a slice of nodes or a small constant, the set of concrete node
// types, whether nil may flow, slice emptiness and the constants that can reach it. Locals are SSA
// values (flow-sensitive through phis), heap cells are merged per (node type, field); every
// allocation site additionally keeps its own field environment (the composite literal).

type AV struct {
	bot      bool
	top      bool
	mayNil   bool
	types    map[string]bool // concrete ast node struct names (values are pointers to them)
	consts   map[string]bool // constants (strings as is, booleans as "true"/"false"); "?" = unknown value
	mayEmpty bool            // slices: may have length 0
	mayFull  bool            // slices: may have length > 0
	elem     *AV             // slices: elements
}

func avBot() AV { return AV{bot: true} }
func avTop() AV { return AV{top: true, mayNil: true, mayEmpty: true, mayFull: true} }

func (a AV) isBot() bool { return a.bot }

func (a AV) key() string {
	if a.bot {
		return "⊥"
	}
	var sb strings.Builder
	if a.top {
		sb.WriteString("⊤")
	}
	if a.mayNil {
		sb.WriteString("nil|")
	}
	sb.WriteString(strings.Join(sortedKeys(a.types), ","))
	sb.WriteString("|c:")
	sb.WriteString(strings.Join(sortedKeys(a.consts), ","))
	if a.mayEmpty {
		sb.WriteString("|E")
	}
	if a.mayFull {
		sb.WriteString("|F")
	}
	if a.elem != nil {
		sb.WriteString("|[" + a.elem.key() + "]")
	}
	return sb.String()
}

func sortedKeys(m map[string]bool) []string {
	var out []string
	for k := range m {
		out = append(out, k)
	}
	sort.Strings(out)
	return out
}

func avJoin(a, b AV) AV {
	if a.bot {
		return b
	}
	if b.bot {
		return a
	}
	out := AV{top: a.top || b.top, mayNil: a.mayNil || b.mayNil, mayEmpty: a.mayEmpty || b.mayEmpty, mayFull: a.mayFull || b.mayFull}
	if len(a.types)+len(b.types) > 0 {
		out.types = map[string]bool{}
		for k := range a.types {
			out.types[k] = true
		}
		for k := range b.types {
			out.types[k] = true
		}
	}
	if len(a.consts)+len(b.consts) > 0 {
		out.consts = map[string]bool{}
		for k := range a.consts {
			out.consts[k] = true
		}
		for k := range b.consts {
			out.consts[k] = true
		}
	}
	switch {
	case a.elem != nil && b.elem != nil:
		e := avJoin(*a.elem, *b.elem)
		out.elem = &e
	case a.elem != nil:
		out.elem = a.elem
	case b.elem != nil:
		out.elem = b.elem
	}
	return out
}

type fieldKey struct {
	typ   string
	field string
}

type Value struct {
	w        *World
	tk       *TKAI
	val      map[ssa.Value]AV
	ret      map[*ssa.Function][]AV
	field    map[fieldKey]AV // merged heap cells: all stores into T.f
	late     map[fieldKey]AV // stores into T.f that are not part of the allocation's own literal
	fns      []*ssa.Function
	live     map[*ssa.Function]map[*ssa.BasicBlock]bool
	astTypes map[string]*types.Named
	changed  bool
	sites    []*ssa.Alloc // allocation sites of ast node structs in package memefish
}

func (w *World) Value() *Value {
	if w.value != nil {
		return w.value
	}
	v := &Value{w: w, tk: w.TKAI(), val: map[ssa.Value]AV{}, ret: map[*ssa.Function][]AV{}, field: map[fieldKey]AV{}, late: map[fieldKey]AV{},
		live: map[*ssa.Function]map[*ssa.BasicBlock]bool{}, astTypes: map[string]*types.Named{}}
	for _, ns := range w.Catalog().Structs {
		v.astTypes[ns.Name] = ns.Named
	}
	for _, fn := range w.ModFns {
		if fnPkgPath(fn) != modRoot {
			continue
		}
		if fn.TypeParams().Len() > 0 && len(fn.TypeArgs()) == 0 {
			continue
		}
		v.fns = append(v.fns, fn)
		v.live[fn] = w.liveBlocks(fn)
		for _, b := range fn.Blocks {
			for _, in := range b.Instrs {
				if al, ok := in.(*ssa.Alloc); ok {
					if n := v.nodeStructOf(al.Type()); n != "" {
						v.sites = append(v.sites, al)
					}
				}
			}
		}
	}
	v.solve()
	w.value = v
	return v
}

// nodeStructOf: t is *T for a catalogued ast node struct T.
func (v *Value) nodeStructOf(t types.Type) string {
	p, ok := t.(*types.Pointer)
	if !ok {
		return ""
	}
	n, ok := p.Elem().(*types.Named)
	if !ok || n.Obj().Pkg() == nil || n.Obj().Pkg().Path() != modRoot+"/ast" {
		return ""
	}
	if _, ok := v.astTypes[n.Obj().Name()]; ok {
		return n.Obj().Name()
	}
	return ""
}

func (v *Value) tracked(t types.Type) bool {
	switch u := t.Underlying().(type) {
	case *types.Pointer:
		return v.nodeStructOf(t) != "" || isNamed(u.Elem(), modRoot+"/token", "Token")
	case *types.Interface:
		return true
	case *types.Slice:
		return v.tracked(u.Elem()) || true
	case *types.Basic:
		return u.Info()&(types.IsString|types.IsBoolean) != 0
	case *types.Signature:
		return false
	}
	return false
}

func (v *Value) set(x ssa.Value, a AV) {
	old, ok := v.val[x]
	if !ok {
		old = avBot()
	}
	n := avJoin(old, a)
	if !ok || n.key() != old.key() {
		v.val[x] = n
		v.changed = true
	}
}

func (v *Value) get(x ssa.Value) AV {
	switch c := x.(type) {
	case *ssa.Const:
		return v.constAV(c)
	case *ssa.Function:
		return AV{}
	case *ssa.Global:
		return avTop()
	}
	if a, ok := v.val[x]; ok {
		return a
	}
	return avBot()
}

func (v *Value) constAV(c *ssa.Const) AV {
	if c.Value == nil {
		switch c.Type().Underlying().(type) {
		case *types.Slice:
			return AV{mayNil: true, mayEmpty: true}
		case *types.Pointer, *types.Interface, *types.Map, *types.Signature, *types.Chan:
			return AV{mayNil: true}
		}
		// zero value of a struct etc.
		return AV{}
	}
	switch c.Value.Kind() {
	case constant.String:
		return AV{consts: map[string]bool{constant.StringVal(c.Value): true}}
	case constant.Bool:
		return AV{consts: map[string]bool{fmt.Sprint(constant.BoolVal(c.Value)): true}}
	}
	return AV{}
}

func zeroAV(t types.Type) AV {
	switch u := t.Underlying().(type) {
	case *types.Slice:
		return AV{mayNil: true, mayEmpty: true}
	case *types.Pointer, *types.Interface, *types.Map, *types.Signature, *types.Chan:
		return AV{mayNil: true}
	case *types.Basic:
		switch {
		case u.Info()&types.IsString != 0:
			return AV{consts: map[string]bool{"": true}}
		case u.Info()&types.IsBoolean != 0:
			return AV{consts: map[string]bool{"false": true}}
		}
	}
	return AV{}
}

func (v *Value) solve() {
	for round := 0; round < 200; round++ {
		v.changed = false
		for _, fn := range v.fns {
			v.transferFn(fn)
		}
		if !v.changed {
			return
		}
	}
	panic("VALUE analysis does not converge")
}

// nonNilAt: using value x at instruction `at`, is it known non-nil there because a dominating branch
// tested it (x != nil, or the ok result of the comma-ok assertion that produced it)?
func (v *Value) nonNilAt(x ssa.Value, at ssa.Instruction) bool {
	b := at.Block()
	// strip interface conversions: a non-nil pointer converted to an interface is non-nil
	for d := b; d != nil; d = d.Idom() {
		p := d.Idom()
		if p == nil {
			break
		}
		iff, ok := p.Instrs[len(p.Instrs)-1].(*ssa.If)
		if !ok {
			continue
		}
		var onTrue, onFalse bool
		switch c := iff.Cond.(type) {
		case *ssa.BinOp:
			var other ssa.Value
			if c.X == x {
				other = c.Y
			} else if c.Y == x {
				other = c.X
			}
			if other != nil && isNilConst(other) {
				if c.Op == token.NEQ {
					onTrue = true
				} else if c.Op == token.EQL {
					onFalse = true
				}
			}
		case *ssa.Extract:
			// ok of a comma-ok type assertion whose value part is x
			if ta, isTA := c.Tuple.(*ssa.TypeAssert); isTA && c.Index == 1 {
				if ex, isEx := x.(*ssa.Extract); isEx && ex.Tuple == ssa.Value(ta) && ex.Index == 0 {
					onTrue = true
				}
			}
		}
		if !onTrue && !onFalse {
			continue
		}
		succ := p.Succs[0]
		if onFalse {
			succ = p.Succs[1]
		}
		if len(succ.Preds) == 1 && (succ == d || succ.Dominates(b)) && succ.Dominates(d) {
			return true
		}
	}
	return false
}

// use returns the abstract value of x as seen by instruction `at` (branch refinement applied).
func (v *Value) use(x ssa.Value, at ssa.Instruction) AV {
	a := v.get(x)
	if a.mayNil && !a.bot && v.nonNilAt(x, at) {
		a.mayNil = false
	}
	// through interface conversions
	if mi, ok := x.(*ssa.MakeInterface); ok && a.mayNil {
		if in, ok2 := ssa.Value(mi).(ssa.Instruction); ok2 {
			_ = in
		}
	}
	return a
}

func (v *Value) transferFn(fn *ssa.Function) {
	live := v.live[fn]
	w := v.w
	// parameters: join over the arguments of all call sites (context-insensitive)
	if len(fn.Params) > 0 {
		callers := w.callersOf(fn)
		for pi, p := range fn.Params {
			if len(callers) == 0 {
				v.set(p, avTop())
				continue
			}
			for _, c := range callers {
				if fnPkgPath(c.Parent()) != modRoot {
					v.set(p, avTop())
					continue
				}
				com := c.Common()
				ai := pi
				var arg ssa.Value
				if com.IsInvoke() {
					if pi == 0 {
						arg = com.Value
					} else {
						ai = pi - 1
					}
				}
				if arg == nil {
					if ai >= len(com.Args) {
						// bound-method closure: receiver is a free variable of the wrapper
						continue
					}
					arg = com.Args[ai]
				}
				a := v.use(arg, c)
				if !a.bot {
					v.set(p, a)
				}
			}
		}
	}
	for _, b := range fn.Blocks {
		if !live[b] {
			continue
		}
		dead := w.deadAt(b)
		for i, in := range b.Instrs {
			if dead >= 0 && i > dead {
				break
			}
			switch in := in.(type) {
			case *ssa.Alloc:
				if n := v.nodeStructOf(in.Type()); n != "" {
					v.set(in, AV{types: map[string]bool{n: true}})
				} else if at, ok := in.Type().(*types.Pointer).Elem().Underlying().(*types.Array); ok {
					// array backing a composite slice literal / varargs
					_ = at
					v.set(in, AV{})
				} else {
					v.set(in, AV{})
				}
			case *ssa.Phi:
				acc := avBot()
				for ei, e := range in.Edges {
					pred := b.Preds[ei]
					if !w.liveEdge(live, pred) {
						continue
					}
					// refinement on the edge: the predecessor's terminator may have tested e
					a := v.get(e)
					if a.mayNil && !a.bot {
						if last := pred.Instrs[len(pred.Instrs)-1]; v.nonNilAt(e, last) || v.edgeNonNil(pred, b, e) {
							a.mayNil = false
						}
					}
					acc = avJoin(acc, a)
				}
				if !acc.bot {
					v.set(in, acc)
				}
			case *ssa.MakeInterface:
				v.copy(in, in.X, in)
			case *ssa.ChangeInterface:
				v.copy(in, in.X, in)
			case *ssa.ChangeType:
				v.copy(in, in.X, in)
			case *ssa.Convert:
				a := v.get(in.X)
				if !a.bot {
					// string(op) keeps constants; other conversions lose them
					if _, ok := in.Type().Underlying().(*types.Basic); ok {
						if _, ok2 := in.X.Type().Underlying().(*types.Basic); ok2 {
							v.set(in, AV{consts: a.consts})
							continue
						}
					}
					v.set(in, AV{consts: map[string]bool{"?": true}, mayEmpty: true, mayFull: true})
				}
			case *ssa.TypeAssert:
				a := v.get(in.X)
				if a.bot {
					continue
				}
				out := AV{top: a.top}
				for t := range a.types {
					if v.typeMatches(t, in.AssertedType) {
						if out.types == nil {
							out.types = map[string]bool{}
						}
						out.types[t] = true
					}
				}
				if in.CommaOk {
					out.mayNil = true // the zero value on failure; uses under `ok` are refined by nonNilAt
				}
				v.set(in, out)
			case *ssa.Extract:
				switch t := in.Tuple.(type) {
				case *ssa.TypeAssert:
					if in.Index == 0 {
						v.copy(in, t, in)
					}
				case *ssa.Call:
					v.callResult(in, t, in.Index)
				case *ssa.Next, *ssa.Lookup:
					v.set(in, avTop())
				}
			case *ssa.Call:
				if in.Type() != nil {
					if _, isTuple := in.Type().(*types.Tuple); !isTuple {
						v.callResult(in, in, 0)
					}
				}
			case *ssa.Slice:
				a := v.get(in.X)
				if a.bot {
					continue
				}
				if al, ok := in.X.(*ssa.Alloc); ok {
					if at, ok := al.Type().(*types.Pointer).Elem().Underlying().(*types.Array); ok {
						e := v.arrayElems(al)
						out := AV{elem: &e}
						if at.Len() > 0 && in.Low == nil && in.High == nil {
							out.mayFull = true
						} else if at.Len() == 0 {
							out.mayEmpty = true
						} else {
							out.mayEmpty, out.mayFull = true, true
						}
						v.set(in, out)
						continue
					}
				}
				out := a
				out.mayNil = false
				if in.Low != nil || in.High != nil {
					out.mayEmpty, out.mayFull = true, true
				}
				v.set(in, out)
			case *ssa.UnOp:
				if in.Op != token.MUL {
					if in.Op == token.NOT {
						a := v.get(in.X)
						if !a.bot {
							out := AV{consts: map[string]bool{}}
							for c := range a.consts {
								switch c {
								case "true":
									out.consts["false"] = true
								case "false":
									out.consts["true"] = true
								default:
									out.consts["?"] = true
								}
							}
							v.set(in, out)
						}
					}
					continue
				}
				v.load(in)
			case *ssa.Store:
				v.store(in)
			case *ssa.BinOp:
				if in.Op == token.ADD {
					// string concatenation of constants
					a, bb := v.get(in.X), v.get(in.Y)
					if !a.bot && !bb.bot && len(a.consts) > 0 && len(bb.consts) > 0 {
						out := AV{consts: map[string]bool{}}
						for x := range a.consts {
							for y := range bb.consts {
								if x == "?" || y == "?" {
									out.consts["?"] = true
								} else {
									out.consts[x+y] = true
								}
							}
						}
						v.set(in, out)
						continue
					}
				}
				if _, ok := in.Type().Underlying().(*types.Basic); ok {
					v.set(in, AV{consts: map[string]bool{"?": true}})
				}
			case *ssa.Return:
				rs := v.ret[fn]
				if rs == nil {
					rs = make([]AV, len(in.Results))
					for i := range rs {
						rs[i] = avBot()
					}
					v.ret[fn] = rs
				}
				for i, r := range in.Results {
					a := v.use(r, in)
					if a.bot {
						continue
					}
					n := avJoin(rs[i], a)
					if n.key() != rs[i].key() {
						rs[i] = n
						v.changed = true
					}
				}
			case *ssa.MakeClosure:
				cl := in.Fn.(*ssa.Function)
				for i, bnd := range in.Bindings {
					a := v.get(bnd)
					if !a.bot {
						v.set(cl.FreeVars[i], a)
					}
				}
			case *ssa.Field, *ssa.Index, *ssa.Lookup, *ssa.MakeSlice, *ssa.MakeMap:
				if val, ok := in.(ssa.Value); ok {
					v.set(val, avTop())
				}
			}
		}
	}
}

// edgeNonNil: the edge pred->succ is the non-nil side of a nil test of e in pred's terminator.
func (v *Value) edgeNonNil(pred, succ *ssa.BasicBlock, e ssa.Value) bool {
	iff, ok := pred.Instrs[len(pred.Instrs)-1].(*ssa.If)
	if !ok {
		return false
	}
	bo, ok := iff.Cond.(*ssa.BinOp)
	if !ok {
		return false
	}
	var other ssa.Value
	if bo.X == e {
		other = bo.Y
	} else if bo.Y == e {
		other = bo.X
	}
	if other == nil || !isNilConst(other) {
		return false
	}
	if bo.Op == token.NEQ {
		return pred.Succs[0] == succ
	}
	if bo.Op == token.EQL {
		return pred.Succs[1] == succ
	}
	return false
}

func (v *Value) copy(dst ssa.Value, src ssa.Value, at ssa.Instruction) {
	a := v.use(src, at)
	if !a.bot {
		v.set(dst, a)
	}
}

// typeMatches: a value of dynamic type *ast.<name> satisfies an assertion to `asserted`.
func (v *Value) typeMatches(name string, asserted types.Type) bool {
	n := v.astTypes[name]
	if n == nil {
		return true
	}
	pt := types.NewPointer(n)
	if iface, ok := asserted.Underlying().(*types.Interface); ok {
		return types.Implements(pt, iface)
	}
	return types.Identical(pt, asserted)
}

// arrayElems: join of everything stored into the elements of a local array.
func (v *Value) arrayElems(al *ssa.Alloc) AV {
	acc := avBot()
	for _, u := range referrers(al) {
		ia, ok := u.(*ssa.IndexAddr)
		if !ok {
			continue
		}
		for _, su := range referrers(ia) {
			if st, ok := su.(*ssa.Store); ok && st.Addr == ssa.Value(ia) {
				acc = avJoin(acc, v.use(st.Val, st))
			}
		}
	}
	if acc.bot {
		return AV{}
	}
	return acc
}

func (v *Value) callResult(dst ssa.Value, call *ssa.Call, idx int) {
	w := v.w
	com := call.Common()
	if bi, ok := com.Value.(*ssa.Builtin); ok {
		switch bi.Name() {
		case "append":
			if len(com.Args) == 2 {
				a, b := v.get(com.Args[0]), v.get(com.Args[1])
				if a.bot && b.bot {
					return
				}
				if a.bot {
					a = AV{}
				}
				if b.bot {
					b = AV{}
				}
				out := AV{mayEmpty: a.mayEmpty && b.mayEmpty || (!a.mayFull && !b.mayFull), mayFull: a.mayFull || b.mayFull, top: a.top || b.top}
				switch {
				case a.elem != nil && b.elem != nil:
					e := avJoin(*a.elem, *b.elem)
					out.elem = &e
				case a.elem != nil:
					out.elem = a.elem
				case b.elem != nil:
					out.elem = b.elem
				}
				v.set(dst, out)
			}
		case "len", "cap":
			v.set(dst, AV{consts: map[string]bool{"?": true}})
		default:
			v.set(dst, avTop())
		}
		return
	}
	callees := w.Callees(call)
	if len(callees) == 0 {
		v.set(dst, avTop())
		return
	}
	acc := avBot()
	for _, callee := range callees {
		if callee.Blocks == nil || fnPkgPath(callee) != modRoot {
			// methods of ast/token types and the standard library
			if v.tracked(dst.Type()) {
				acc = avJoin(acc, v.externalResult(callee, dst.Type()))
			}
			continue
		}
		rs := v.ret[callee]
		if rs == nil || idx >= len(rs) || rs[idx].bot {
			continue
		}
		a := rs[idx]
		if a.mayNil && v.nilImpossibleHere(call, callee, idx) {
			a.mayNil = false
		}
		if a.mayEmpty && a.mayFull && v.emptyImpossibleHere(call, callee, idx) {
			a.mayEmpty = false
			a.mayNil = false
		}
		acc = avJoin(acc, a)
	}
	if !acc.bot {
		v.set(dst, acc)
	}
}

func (v *Value) externalResult(callee *ssa.Function, t types.Type) AV {
	// Token.Clone and friends: non-nil pointers; everything else unknown
	if callee.Name() == "Clone" {
		return AV{}
	}
	switch t.Underlying().(type) {
	case *types.Basic:
		return AV{consts: map[string]bool{"?": true}}
	}
	return avTop()
}

// nilImpossibleHere: the callee returns nil only on paths that consume nothing, and under the kind
// state of this call site no such path is feasible (tryParseX called under Kind == opener).
func (v *Value) nilImpossibleHere(call *ssa.Call, callee *ssa.Function, idx int) bool {
	tk := v.tk
	if callee.Signature.Results().Len() != 1 || !tk.touchesLexer(callee) {
		return false
	}
	st := tk.StateBefore(call)
	if st == nil {
		return false
	}
	consts := map[int]string{}
	for ai, a := range call.Call.Args {
		if s, ok := constString(a); ok {
			consts[ai] = s
		}
	}
	sum := tk.summary(callee, st.cur, consts, false)
	if sum.nilWhenConsumed {
		return false
	}
	return sum.passWhenNil.m == nil || sum.passWhenNil.IsEmpty() || !st.cur.Overlaps(sum.passWhenNil)
}

// load handles *addr.
func (v *Value) load(in *ssa.UnOp) {
	w := v.w
	switch a := in.X.(type) {
	case *ssa.Alloc:
		v.set(in, v.cellValue(a, in))
	case *ssa.FreeVar:
		x := v.get(a)
		if !x.bot {
			v.set(in, x)
		}
	case *ssa.FieldAddr:
		n := namedOf(a.X.Type())
		if n != nil && n.Obj().Pkg() != nil && n.Obj().Pkg().Path() == modRoot+"/ast" {
			if _, isNode := v.astTypes[n.Obj().Name()]; isNode {
				k := fieldKey{n.Obj().Name(), fieldAddrName(a)}
				// a load from the allocation made in this very function sees the literal's own value
				if al, ok := a.X.(*ssa.Alloc); ok {
					if sv, ok := v.siteField(al, k.field, in); ok {
						v.set(in, sv)
						return
					}
				}
				x, ok := v.field[k]
				if ok && !x.bot {
					v.set(in, x)
				}
				return
			}
		}
		if w.isTokenPtr(a.X.Type()) || w.isLexerPtr(a.X.Type()) || w.isParserPtr(a.X.Type()) {
			switch in.Type().Underlying().(type) {
			case *types.Basic:
				v.set(in, AV{consts: map[string]bool{"?": true}})
			default:
				v.set(in, avTop())
			}
			return
		}
		v.set(in, avTop())
	case *ssa.IndexAddr:
		x := v.get(a.X)
		if x.bot {
			return
		}
		if x.elem != nil {
			v.set(in, *x.elem)
		} else if al, ok := a.X.(*ssa.Alloc); ok {
			v.set(in, v.arrayElems(al))
		} else {
			v.set(in, avTop())
		}
	default:
		v.set(in, avTop())
	}
}

// cellValue: what a load of a local variable cell can see.
func (v *Value) cellValue(al *ssa.Alloc, load *ssa.UnOp) AV {
	// strong update: the last store to the cell in the same block before the load
	b := load.Block()
	idx := indexOf(b, load)
	for i := idx - 1; i >= 0; i-- {
		if st, ok := b.Instrs[i].(*ssa.Store); ok && st.Addr == ssa.Value(al) {
			a := v.use(st.Val, st)
			if a.bot {
				return avBot()
			}
			return a
		}
		if _, isCall := b.Instrs[i].(ssa.CallInstruction); isCall {
			if v.captured(al) {
				break // a callee (closure) may have written the cell
			}
		}
	}
	var stores []*ssa.Store
	collectStores(al, &stores)
	acc := avBot()
	for _, st := range stores {
		a := v.use(st.Val, st)
		acc = avJoin(acc, a)
	}
	// the zero value is visible unless some store dominates the load, or the load is in the recover block
	// (reached only after the deferred handler has stored the result)
	dominated := false
	for _, st := range stores {
		if st.Parent() == load.Parent() && (st.Block() != b && st.Block().Dominates(b)) {
			dominated = true
		}
	}
	inRecover := load.Parent().Recover != nil && (b == load.Parent().Recover || load.Parent().Recover.Dominates(b))
	if !dominated && !inRecover {
		acc = avJoin(acc, zeroAV(al.Type().(*types.Pointer).Elem()))
	}
	return acc
}

func (v *Value) captured(al *ssa.Alloc) bool {
	for _, u := range referrers(al) {
		if _, ok := u.(*ssa.MakeClosure); ok {
			return true
		}
	}
	return false
}

// store handles *addr = val for node fields and array elements.
func (v *Value) store(st *ssa.Store) {
	fa, ok := st.Addr.(*ssa.FieldAddr)
	if !ok {
		return
	}
	n := namedOf(fa.X.Type())
	if n == nil || n.Obj().Pkg() == nil || n.Obj().Pkg().Path() != modRoot+"/ast" {
		return
	}
	if _, isNode := v.astTypes[n.Obj().Name()]; !isNode {
		return
	}
	a := v.use(st.Val, st)
	if a.bot {
		return
	}
	k := fieldKey{n.Obj().Name(), fieldAddrName(fa)}
	v.joinField(v.field, k, a)
	if _, isAlloc := fa.X.(*ssa.Alloc); !isAlloc {
		v.joinField(v.late, k, a)
	}
}

func (v *Value) joinField(m map[fieldKey]AV, k fieldKey, a AV) {
	old, ok := m[k]
	if !ok {
		old = avBot()
	}
	nw := avJoin(old, a)
	if nw.key() != old.key() {
		m[k] = nw
		v.changed = true
	}
}

// siteField: the value a field has at an allocation site: the literal's own store (if any, else the
// zero value) joined with later stores through other pointers.
func (v *Value) siteField(al *ssa.Alloc, field string, at ssa.Instruction) (AV, bool) {
	tname := v.nodeStructOf(al.Type())
	if tname == "" {
		return AV{}, false
	}
	acc := avBot()
	stored := false
	for _, u := range referrers(al) {
		fa, ok := u.(*ssa.FieldAddr)
		if !ok || fieldAddrName(fa) != field {
			continue
		}
		for _, fu := range referrers(fa) {
			if st, ok := fu.(*ssa.Store); ok && st.Addr == ssa.Value(fa) {
				stored = true
				acc = avJoin(acc, v.use(st.Val, st))
			}
		}
	}
	zero := func() AV {
		st := v.astTypes[tname].Underlying().(*types.Struct)
		for i := 0; i < st.NumFields(); i++ {
			if st.Field(i).Name() == field {
				return zeroAV(st.Field(i).Type())
			}
		}
		return AV{}
	}
	if !stored {
		acc = zero()
	} else if v.escapesUnset(al, field) {
		// assigned after the literal on some paths only: a path leaves the function with the field unset
		acc = avJoin(acc, zero())
	}
	if l, ok := v.late[fieldKey{tname, field}]; ok {
		acc = avJoin(acc, l)
	}
	return acc, true
}

// SiteEnv returns the field environment of an allocation site.
func (v *Value) SiteEnv(al *ssa.Alloc) map[string]AV {
	tname := v.nodeStructOf(al.Type())
	env := map[string]AV{}
	st := v.astTypes[tname].Underlying().(*types.Struct)
	for i := 0; i < st.NumFields(); i++ {
		f := st.Field(i).Name()
		a, _ := v.siteField(al, f, nil)
		if a.mayEmpty && a.mayFull && v.listNonEmptyAtSite(al, f) {
			a.mayEmpty, a.mayNil = false, false
		}
		env[f] = a
	}
	return env
}

// listNonEmptyAtSite: the slice stored in the field is built by appends in this function; the site
// cannot be reached without a token having been consumed (under the facts of the function's call
// sites), and every path from a token-consuming call to the site passes an append to that slice.
func (v *Value) listNonEmptyAtSite(al *ssa.Alloc, field string) bool {
	tk, w := v.tk, v.w
	var stored ssa.Value
	for _, u := range referrers(al) {
		if fa, ok := u.(*ssa.FieldAddr); ok && fieldAddrName(fa) == field {
			for _, fu := range referrers(fa) {
				if st, ok := fu.(*ssa.Store); ok && st.Addr == ssa.Value(fa) {
					stored = st.Val
				}
			}
		}
	}
	if stored == nil {
		return false
	}
	appends := map[ssa.Instruction]bool{}
	for _, o := range phiOrigins(stored) {
		if c, ok := o.(*ssa.Call); ok {
			if bi, ok := c.Call.Value.(*ssa.Builtin); ok && bi.Name() == "append" {
				appends[c] = true
			}
		}
	}
	if len(appends) == 0 {
		return false
	}
	if tk.ReachableUnconsumed(al) {
		return false
	}
	fn := al.Parent()
	for _, b := range fn.Blocks {
		for i, in := range b.Instrs {
			ci, ok := in.(ssa.CallInstruction)
			if !ok {
				continue
			}
			consuming := false
			for _, c := range w.Callees(ci) {
				if c == tk.prim || (fnPkgPath(c) == modRoot && tk.touchesLexer(c)) {
					consuming = true
				}
			}
			if !consuming {
				continue
			}
			// from just after this call, is the site reachable without passing an append?
			if v.reachesInstrAvoiding(b, i+1, al, func(x ssa.Instruction) bool { return appends[x] }) {
				return false
			}
		}
	}
	return true
}

func (v *Value) reachesInstrAvoiding(b *ssa.BasicBlock, from int, target ssa.Instruction, stop func(ssa.Instruction) bool) bool {
	w := v.w
	seen := map[*ssa.BasicBlock]bool{}
	var visit func(blk *ssa.BasicBlock, i0 int) bool
	visit = func(blk *ssa.BasicBlock, i0 int) bool {
		dead := w.deadAt(blk)
		for i := i0; i < len(blk.Instrs); i++ {
			in := blk.Instrs[i]
			if in == target {
				return true
			}
			if stop(in) {
				return false
			}
			if dead >= 0 && i == dead {
				return false
			}
		}
		for _, s := range blk.Succs {
			if seen[s] {
				continue
			}
			seen[s] = true
			if visit(s, 0) {
				return true
			}
		}
		return false
	}
	return visit(b, from)
}

// FieldAV: the merged abstract value of a node field over all sites and stores (+ zero value of
// sites that do not initialise it).
func (v *Value) FieldAV(typ, field string) AV {
	acc := avBot()
	for _, al := range v.sites {
		if v.nodeStructOf(al.Type()) != typ {
			continue
		}
		a, _ := v.siteField(al, field, nil)
		acc = avJoin(acc, a)
	}
	if x, ok := v.field[fieldKey{typ, field}]; ok {
		acc = avJoin(acc, x)
	}
	return acc
}

// escapesUnset: some path from the allocation to a Return does not pass a store to the given field
// of that allocation.
func (v *Value) escapesUnset(al *ssa.Alloc, field string) bool {
	isStore := func(in ssa.Instruction) bool {
		st, ok := in.(*ssa.Store)
		if !ok {
			return false
		}
		fa, ok := st.Addr.(*ssa.FieldAddr)
		return ok && fa.X == ssa.Value(al) && fieldAddrName(fa) == field
	}
	w := v.w
	seen := map[*ssa.BasicBlock]bool{}
	var visit func(b *ssa.BasicBlock, from int) bool
	visit = func(b *ssa.BasicBlock, from int) bool {
		dead := w.deadAt(b)
		for i := from; i < len(b.Instrs); i++ {
			in := b.Instrs[i]
			if isStore(in) {
				return false
			}
			if dead >= 0 && i == dead {
				return false
			}
			switch in.(type) {
			case *ssa.Return:
				return true
			case *ssa.Panic:
				return false
			}
		}
		for _, s := range b.Succs {
			if seen[s] {
				continue
			}
			seen[s] = true
			if visit(s, 0) {
				return true
			}
		}
		return false
	}
	return visit(al.Block(), indexOf(al.Block(), al)+1)
}

// emptyImpossibleHere: the callee builds its result slice with append in a loop; under the kind
// state of this call site it cannot return without consuming a token, and every path from a
// token-consuming call to a return passes an append to the result: the result is non-empty here.
func (v *Value) emptyImpossibleHere(call *ssa.Call, callee *ssa.Function, idx int) bool {
	tk, w := v.tk, v.w
	if !tk.touchesLexer(callee) {
		return false
	}
	if _, isSlice := call.Type().Underlying().(*types.Slice); !isSlice && callee.Signature.Results().Len() == 1 {
		// a node wrapping the list is handled at its own allocation site
	}
	st := tk.StateBefore(call)
	if st == nil {
		return false
	}
	sum := tk.summary(callee, st.cur, nil, false)
	if sum.pass.m != nil && !sum.pass.IsEmpty() && st.cur.Overlaps(sum.pass) {
		return false
	}
	// appends feeding the returned value
	appends := map[ssa.Instruction]bool{}
	for _, b := range callee.Blocks {
		ret, ok := b.Instrs[len(b.Instrs)-1].(*ssa.Return)
		if !ok || idx >= len(ret.Results) {
			continue
		}
		for _, o := range phiOrigins(ret.Results[idx]) {
			if c, ok := o.(*ssa.Call); ok {
				if bi, ok := c.Call.Value.(*ssa.Builtin); ok && bi.Name() == "append" {
					appends[c] = true
				}
			}
		}
	}
	if len(appends) == 0 {
		return false
	}
	isAppend := func(in ssa.Instruction) bool { return appends[in] }
	for _, b := range callee.Blocks {
		for i, in := range b.Instrs {
			ci, ok := in.(ssa.CallInstruction)
			if !ok {
				continue
			}
			consuming := false
			for _, c := range w.Callees(ci) {
				if c == tk.prim || (fnPkgPath(c) == modRoot && tk.touchesLexer(c)) {
					consuming = true
				}
			}
			if !consuming {
				continue
			}
			// from just after this call, can a return be reached without an append?
			if v.reachesReturnAvoiding(b, i+1, isAppend) {
				return false
			}
		}
	}
	return true
}

func (v *Value) reachesReturnAvoiding(b *ssa.BasicBlock, from int, stop func(ssa.Instruction) bool) bool {
	w := v.w
	seen := map[*ssa.BasicBlock]bool{}
	var visit func(blk *ssa.BasicBlock, i0 int) bool
	visit = func(blk *ssa.BasicBlock, i0 int) bool {
		dead := w.deadAt(blk)
		for i := i0; i < len(blk.Instrs); i++ {
			in := blk.Instrs[i]
			if stop(in) {
				return false
			}
			if dead >= 0 && i == dead {
				return false
			}
			switch in.(type) {
			case *ssa.Return:
				return true
			case *ssa.Panic:
				return false
			}
		}
		for _, s := range blk.Succs {
			if seen[s] {
				continue
			}
			seen[s] = true
			if visit(s, 0) {
				return true
			}
		}
		return false
	}
	return visit(b, from)
}
