package main

import "testing"

func TestElimEq(t *testing.T) {
	at := newAtomTable()
	P := at.get("P", "pos", false)
	N := at.get("N", "N", false)
	q := at.get("q", "len(t3)", true)
	i := at.get("i", "i9", false)
	size := at.get("size", "size", false)
	ip := at.get("ip", "i9'", false)
	st := emptyState().
		ge(linAtom(N), linAtom(P).add(linAtom(i)).add(linAtom(size)).add(linConst(2))).
		ge(linAtom(i), linAtom(q)).ge(linAtom(q), linAtom(i)).
		ge(linAtom(i), linConst(1)).
		ge(linAtom(size), linConst(4)).ge(linConst(8), linAtom(size)).
		eq(linAtom(ip), linAtom(i).add(linAtom(size)).add(linConst(2)))
	t.Log(at.showState(st))
	out := st.eliminate(at, map[atomID]bool{i: true})
	t.Log(at.showState(out))
	if !out.proves(at, lfact{l: linAtom(N).sub(linAtom(P)).sub(linAtom(ip))}) {
		t.Fatal("lost N-P-i' >= 0")
	}
}
