package main

import (
	"fmt"
	"go/constant"
	"go/token"
	"strings"

	"golang.org/x/tools/go/ssa"
)

func init() {
	register(&propDef{
		ID: "C10",
		Explanation: "Sibling cross-check of the recovery handlers that build ast.BadNode: R1 capture triple — after the rewind (a recording call dominates), NodePos is a load of the current token's Pos taken before any advance; in the skip loop the block that fetches the next token (Lexer.nextToken(true)) is the only advance of the loop, lies on every cycle, and is preceded in the same block by exactly one append(tokens, p.Token.Clone()) and one end = p.Token.End with nothing fetched in between; the BadNode literal receives exactly those three values and nothing is fetched between loop exit and the allocation; all handlers must satisfy the same predicate. " +
			"R2 the two lexer modes agree on clean text: in lexer.go every branch on the noPanic parameter has a non-recovery side that only raises (no store, no cursor advance before the raise), so on input where the panicking mode does not panic both modes execute the same instructions. " +
			"R3 the values appended to BadNode.Tokens are results of Token.Clone(), never the address of the live token. " +
			"R4 BadNode.SQL decides the separator between two raw tokens from both trivia fields of the token (Space and Comments), or unconditionally. " +
			"Does not decide: which tokens should be skipped (nesting counters), the '>>' split inside handleParseTypeError.",
		Rules: []ruleFn{ruleC10R1, ruleC10R2, ruleC10R3, ruleC10R4, ruleC10R5, ruleC05R6},
	})
}

func ruleC10R1(w *World, r *Report) {
	const rule = "C10/R1"
	r.rule(rule, "every function that allocates ast.BadNode: NodePos = current token's Pos before any advance; the skip loop appends Token.Clone() and records Token.End exactly once, before its single advance, on every cycle; the literal gets those values; nothing is fetched after the loop", 2)
	rec := w.Recording()
	tk := w.TKAI()
	n := 0
	isPrim := func(in ssa.Instruction) bool {
		c, ok := in.(*ssa.Call)
		return ok && c.Call.StaticCallee() == tk.prim
	}
	consumes := w.c10Consumes()
	sites := w.badNodeSites()
	for _, cs := range sites {
		fn, b := cs.fn, cs.at.Block()
		{
			{
				al := cs.at
				n++
				construct := "BadNode capture in " + funcName(fn)
				var problems []string
				fields := cs.fields
				// the rewind
				var recCall ssa.Instruction
				for _, bb := range fn.Blocks {
					for _, x := range bb.Instrs {
						if c, ok := x.(*ssa.Call); ok {
							if cal := c.Call.StaticCallee(); cal != nil && rec[cal] && (bb == b || bb.Dominates(b)) {
								recCall = x
							}
						}
					}
				}
				if recCall == nil {
					problems = append(problems, "no error-recording (rewinding) call dominates the allocation")
				}
				// NodePos
				np := fields["NodePos"]
				if f, _, ok := w.curTokenField(np); !ok || f != "Pos" {
					problems = append(problems, "NodePos is not a load of the current token's Pos")
				} else if recCall != nil {
					ld := np.(ssa.Instruction)
					if !instrDominates(recCall, ld) {
						problems = append(problems, "NodePos is read before the lexer is rewound to the failed region: it is the position of whatever token the failed parse had reached")
					}
					for _, sq := range cursorPathsGeneric(recCall, ld, consumes) {
						if len(sq) > 0 {
							problems = append(problems, "a token is fetched between the rewind and the read of NodePos")
						}
					}
				}
				// the skip loop
				var loop *natLoop
				for _, l := range naturalLoops(fn) {
					for bb := range l.body {
						for _, x := range bb.Instrs {
							if isPrim(x) || consumes(x) {
								loop = l
							}
						}
					}
				}
				if loop == nil {
					problems = append(problems, "no skip loop with Lexer.nextToken found")
				} else {
					var advBlocks []*ssa.BasicBlock
					nAdv := 0
					for bb := range loop.body {
						for _, x := range bb.Instrs {
							if consumes(x) {
								nAdv++
								advBlocks = append(advBlocks, bb)
							}
						}
					}
					if nAdv != 1 {
						problems = append(problems, fmt.Sprintf("the skip loop fetches tokens at %d places; every skipped token must be recorded exactly once", nAdv))
					} else {
						ab := advBlocks[0]
						for _, bk := range loop.backs {
							if !(ab == bk || ab.Dominates(bk)) {
								problems = append(problems, "a cycle of the skip loop bypasses the recording block")
							}
						}
						// in ab: exactly one clone of the current token made before the advance (directly, or inside a helper that
						// clones, advances once and returns the clone), appended to the list; and one read of that token's End —
						// from the current token before the advance, or from the clone at any time
						nClone, nEnd := 0, 0
						var endLoad, appendVal, cloneVal ssa.Value
						advanced := false
						listHelper := false
						for _, x := range ab.Instrs {
							if consumes(x) {
								if c, ok := x.(*ssa.Call); ok {
									if cal := c.Call.StaticCallee(); cal != nil && w.cloneAndAdvance(cal, consumes) {
										nClone++
										cloneVal = c
									}
									// `tokens = p.skipToken(tokens)`: clones, appends to the list it is given, advances, returns the list
									if cal := c.Call.StaticCallee(); cal != nil && w.appendCloneAndAdvance(cal, consumes) {
										nClone++
										cloneVal = nil
										appendVal = c
										listHelper = true
									}
								}
								advanced = true
								continue
							}
							if c, ok := x.(*ssa.Call); ok {
								if c.Call.StaticCallee() == tk.tokCl && !advanced {
									if cur, _ := tk.tokenSources(c.Call.Args[0]); cur {
										nClone++
										cloneVal = c
									}
								}
								if bi, ok := c.Call.Value.(*ssa.Builtin); ok && bi.Name() == "append" {
									appendVal = c
								}
							}
							if v, ok := x.(ssa.Value); ok {
								if f, _, ok := w.curTokenField(v); ok && f == "End" && !advanced {
									nEnd++
									endLoad = v
								}
								if ld, ok := isLoad(v); ok && cloneVal != nil {
									if fa, ok := ld.(*ssa.FieldAddr); ok && fa.X == cloneVal && fieldAddrName(fa) == "End" {
										nEnd++
										endLoad = v
									}
								}
							}
						}
						if nClone != 1 || appendVal == nil {
							problems = append(problems, fmt.Sprintf("the recording block clones the current token %d times before the advance (want exactly one append of Token.Clone())", nClone))
						} else if !listHelper && !appendsValue(appendVal.(*ssa.Call), cloneVal) {
							problems = append(problems, "the clone of the current token is not what is appended to the list")
						}
						if cs.endFromTokens {
							// NodeEnd is computed by the constructor from the list itself (End of its last element, the start
							// position when it is empty): it cannot disagree with Tokens
						} else if nEnd != 1 {
							problems = append(problems, fmt.Sprintf("the recording block reads the recorded token's End %d times (want exactly one)", nEnd))
						}
						// NodeEnd: phi of the initial Pos load and the End load
						if !cs.endFromTokens && endLoad != nil && !reachesThroughPhis(endLoad, fields["NodeEnd"]) {
							problems = append(problems, "NodeEnd is not the End of the last recorded token")
						}
						if ne := fields["NodeEnd"]; ne != nil && !cs.endFromTokens {
							for _, o := range phiOrigins(ne) {
								if endLoad != nil && o == endLoad {
									continue // the End of the clone recorded in this cycle
								}
								f, _, ok := w.curTokenField(o)
								if !ok || (f != "End" && f != "Pos") {
									problems = append(problems, "NodeEnd can take a value that is neither the start position (empty Bad node) nor a recorded token's End")
								}
								if oi, isI := o.(ssa.Instruction); ok && isI && recCall != nil && !instrDominates(recCall, oi) {
									problems = append(problems, "NodeEnd can take a position read before the lexer is rewound to the failed region")
								}
							}
						}
						if appendVal != nil && !reachesThroughPhis(appendVal, fields["Tokens"]) {
							problems = append(problems, "Tokens is not the slice built by the skip loop")
						}
					}
					// nothing fetched after the loop
					for _, bb := range fn.Blocks {
						if loop.body[bb] {
							continue
						}
						reachableFromLoop := false
						for lb := range loop.body {
							for _, s := range lb.Succs {
								if !loop.body[s] && (s == bb || w.pathAvoiding(s, bb, func(ssa.Instruction) bool { return false })) {
									reachableFromLoop = true
								}
							}
						}
						if !reachableFromLoop {
							continue
						}
						for _, x := range bb.Instrs {
							if consumes(x) {
								problems = append(problems, "a token is fetched after the skip loop and before the Bad node is built: it is in the node's range but not in Tokens")
							}
						}
					}
				}
				if len(problems) > 0 {
					r.bad(rule, construct, w.pos(al.Pos()), strings.Join(uniqSorted(problems), "; "))
				} else {
					r.ok(rule, construct, w.pos(al.Pos()), "NodePos/NodeEnd/Tokens are the start, the last recorded End and the cloned tokens of one skip loop with a single advance per cycle")
				}
			}
		}
	}
	if n < 1 {
		r.errorf("expected four handlers allocating ast.BadNode, found %d", n)
	}
}

// c10Consumes: the instruction fetches the next token (the primitive, or a module function that does and is not one of the
// recording wrappers)
func (w *World) c10Consumes() func(ssa.Instruction) bool {
	tk := w.TKAI()
	rec := w.Recording()
	return func(in ssa.Instruction) bool {
		ci, ok := in.(ssa.CallInstruction)
		if !ok {
			return false
		}
		if _, isDefer := in.(*ssa.Defer); isDefer {
			return false
		}
		for _, c := range w.Callees(ci) {
			if c == tk.prim || (fnPkgPath(c) == modRoot && tk.fetches(c) && !rec[c]) {
				return true
			}
		}
		return false
	}
}

// the places where a Bad node is put together: a literal in a handler, or the call of a constructor
// (newBadNode(pos, tokens)) whose literal takes its fields from the parameters
type captureSite struct {
	fn            *ssa.Function
	at            ssa.Instruction
	fields        map[string]ssa.Value
	endFromTokens bool
}

func (w *World) badNodeSites() []captureSite {
	var sites []captureSite
	for _, fn := range w.ModFns {
		if fnPkgPath(fn) != modRoot {
			continue
		}
		for _, b := range fn.Blocks {
			for _, in := range b.Instrs {
				al, ok := in.(*ssa.Alloc)
				if !ok || !isNamed(al.Type(), modRoot+"/ast", "BadNode") {
					continue
				}
				if argFields, endFromTokens, isCtor := badNodeConstructor(fn, al); isCtor {
					for _, site := range w.callersOf(fn) {
						call, ok := site.(*ssa.Call)
						if !ok || call.Parent() == nil {
							continue
						}
						f := map[string]ssa.Value{}
						for name, pi := range argFields {
							if pi < len(call.Call.Args) {
								f[name] = call.Call.Args[pi]
							}
						}
						sites = append(sites, captureSite{call.Parent(), call, f, endFromTokens})
					}
					continue
				}
				sites = append(sites, captureSite{fn, al, allocFieldStores(al), false})
			}
		}
	}
	return sites
}

// badNodeConstructor: fn builds its one BadNode literal from its parameters: NodePos and Tokens are parameters, NodeEnd is
// a parameter too or is computed from the token list (End of its last element under len > 0, else the start position).
// Returns field name -> parameter index.
func badNodeConstructor(fn *ssa.Function, al *ssa.Alloc) (map[string]int, bool, bool) {
	if len(naturalLoops(fn)) > 0 {
		return nil, false, false
	}
	paramIdx := func(v ssa.Value) int {
		for {
			switch x := v.(type) {
			case *ssa.Convert:
				v = x.X
				continue
			case *ssa.ChangeType:
				v = x.X
				continue
			}
			break
		}
		for i, p := range fn.Params {
			if v == ssa.Value(p) {
				return i
			}
		}
		return -1
	}
	fs := allocFieldStores(al)
	out := map[string]int{}
	pi, ti := paramIdx(fs["NodePos"]), paramIdx(fs["Tokens"])
	if fs["NodePos"] == nil || fs["Tokens"] == nil || pi < 0 || ti < 0 {
		return nil, false, false
	}
	out["NodePos"], out["Tokens"] = pi, ti
	ne := fs["NodeEnd"]
	if ne == nil {
		return nil, false, false
	}
	if ei := paramIdx(ne); ei >= 0 {
		out["NodeEnd"] = ei
		return out, false, true
	}
	// end := pos; if len(tokens) > 0 { end = tokens[len(tokens)-1].End }
	okShape := true
	sawLast := false
	for _, o := range phiOrigins(ne) {
		if paramIdx(o) == pi {
			continue
		}
		ld, ok := isLoad(o)
		if !ok {
			okShape = false
			break
		}
		fa, ok := ld.(*ssa.FieldAddr)
		if !ok || fieldAddrName(fa) != "End" {
			okShape = false
			break
		}
		el, ok := isLoad(fa.X)
		if !ok {
			okShape = false
			break
		}
		ia, ok := el.(*ssa.IndexAddr)
		if !ok || paramIdx(ia.X) != ti || !isLenMinus(ia.Index, fn.Params[ti], 1) {
			okShape = false
			break
		}
		sawLast = true
	}
	if !okShape || !sawLast {
		return nil, false, false
	}
	return out, true, true
}

// appendCloneAndAdvance: h(p, list) clones the current token, appends the clone to the list it is given, fetches the next
// token exactly once after that, and returns the appended list.
func (w *World) appendCloneAndAdvance(fn *ssa.Function, consumes func(ssa.Instruction) bool) bool {
	if fn.Blocks == nil || len(naturalLoops(fn)) > 0 || len(fn.Params) != 2 {
		return false
	}
	tk := w.TKAI()
	var clone, app *ssa.Call
	nAdv := 0
	for _, b := range fn.Blocks {
		for _, in := range b.Instrs {
			if consumes(in) {
				nAdv++
				if app == nil {
					return false
				}
				continue
			}
			c, ok := in.(*ssa.Call)
			if !ok {
				continue
			}
			if c.Call.StaticCallee() == tk.tokCl {
				if cur, _ := tk.tokenSources(c.Call.Args[0]); cur {
					if clone != nil || nAdv > 0 {
						return false
					}
					clone = c
				}
			}
			if bi, ok := c.Call.Value.(*ssa.Builtin); ok && bi.Name() == "append" {
				if app != nil || clone == nil || c.Call.Args[0] != ssa.Value(fn.Params[1]) || !appendsValue(c, clone) {
					return false
				}
				app = c
			}
		}
	}
	if clone == nil || app == nil || nAdv != 1 {
		return false
	}
	n := 0
	for _, b := range fn.Blocks {
		if ret, ok := b.Instrs[len(b.Instrs)-1].(*ssa.Return); ok {
			n++
			if len(ret.Results) != 1 || ret.Results[0] != ssa.Value(app) {
				return false
			}
		}
	}
	return n > 0
}

// cloneAndAdvance: a helper of the recovery loops that clones the current token, fetches the next one exactly once,
// after the clone, and returns the clone (`tok := p.Token.Clone(); p.Lexer.nextToken(true); return tok`).
func (w *World) cloneAndAdvance(fn *ssa.Function, consumes func(ssa.Instruction) bool) bool {
	if fn.Blocks == nil || len(naturalLoops(fn)) > 0 {
		return false
	}
	tk := w.TKAI()
	var clone *ssa.Call
	nAdv := 0
	for _, b := range fn.Blocks {
		for _, in := range b.Instrs {
			if consumes(in) {
				nAdv++
				if clone == nil {
					return false // advances before it clones
				}
				continue
			}
			if c, ok := in.(*ssa.Call); ok && c.Call.StaticCallee() == tk.tokCl {
				if cur, _ := tk.tokenSources(c.Call.Args[0]); cur {
					if clone != nil || nAdv > 0 {
						return false
					}
					clone = c
				}
			}
		}
	}
	if clone == nil || nAdv != 1 {
		return false
	}
	n := 0
	for _, b := range fn.Blocks {
		if ret, ok := b.Instrs[len(b.Instrs)-1].(*ssa.Return); ok {
			n++
			if len(ret.Results) != 1 || ret.Results[0] != ssa.Value(clone) {
				return false
			}
			if !(clone.Block() == b || clone.Block().Dominates(b)) {
				return false
			}
		}
	}
	return n > 0
}

// appendsValue: the append call adds v (append(xs, v) — v stored into the variadic array of the call).
func appendsValue(app *ssa.Call, v ssa.Value) bool {
	if len(app.Call.Args) != 2 {
		return false
	}
	sl, ok := app.Call.Args[1].(*ssa.Slice)
	if !ok {
		return false
	}
	al, ok := sl.X.(*ssa.Alloc)
	if !ok {
		return false
	}
	for _, u := range referrers(al) {
		if ia, ok := u.(*ssa.IndexAddr); ok {
			for _, uu := range referrers(ia) {
				if st, ok := uu.(*ssa.Store); ok && st.Val == v {
					return true
				}
			}
		}
	}
	return false
}

// cursorPathsGeneric: like cursorPaths with a custom event predicate.
func cursorPathsGeneric(a, b ssa.Instruction, event func(ssa.Instruction) bool) [][]ssa.Instruction {
	var out [][]ssa.Instruction
	onPath := map[*ssa.BasicBlock]bool{a.Block(): true}
	budget := 5000
	var visit func(blk *ssa.BasicBlock, from int, acc []ssa.Instruction)
	visit = func(blk *ssa.BasicBlock, from int, acc []ssa.Instruction) {
		budget--
		if budget < 0 {
			return
		}
		for i := from; i < len(blk.Instrs); i++ {
			in := blk.Instrs[i]
			if in == b {
				out = append(out, append([]ssa.Instruction{}, acc...))
				return
			}
			if event(in) {
				acc = append(append([]ssa.Instruction{}, acc...), in)
			}
		}
		for _, s := range blk.Succs {
			if onPath[s] {
				continue
			}
			onPath[s] = true
			visit(s, 0, acc)
			onPath[s] = false
		}
	}
	visit(a.Block(), indexOf(a.Block(), a)+1, nil)
	return out
}

func phiOrigins(v ssa.Value) []ssa.Value {
	seen := map[ssa.Value]bool{}
	var out []ssa.Value
	var walk func(x ssa.Value)
	walk = func(x ssa.Value) {
		if seen[x] {
			return
		}
		seen[x] = true
		if p, ok := x.(*ssa.Phi); ok {
			for _, e := range p.Edges {
				walk(e)
			}
			return
		}
		out = append(out, x)
	}
	walk(v)
	return out
}

func reachesThroughPhis(src, dst ssa.Value) bool {
	if dst == nil {
		return false
	}
	for _, o := range phiOrigins(dst) {
		if o == src {
			return true
		}
	}
	return false
}

func ruleC10R2(w *World, r *Report) {
	const rule = "C10/R2"
	r.rule(rule, "every branch on the lexer's noPanic parameter: the side taken when noPanic is false reaches a raise (panic / no-return call) without any store or cursor advance in between", 8)
	w.NoReturn()
	n := 0
	for _, fn := range w.ModFns {
		if fnPkgPath(fn) != modRoot || fn.Signature.Recv() == nil || !w.isLexerPtr(fn.Signature.Recv().Type()) {
			continue
		}
		var np *ssa.Parameter
		for _, p := range fn.Params {
			if p.Name() == "noPanic" {
				np = p
			}
		}
		if np == nil {
			continue
		}
		cnt := 0
		for _, b := range fn.Blocks {
			iff, ok := b.Instrs[len(b.Instrs)-1].(*ssa.If)
			if !ok {
				continue
			}
			cond := iff.Cond
			neg := false
			if un, ok := cond.(*ssa.UnOp); ok && un.Op == token.NOT {
				cond, neg = un.X, true
			}
			if cond != ssa.Value(np) {
				continue
			}
			n++
			cnt++
			construct := fmt.Sprintf("noPanic branch %d in %s", cnt, funcName(fn))
			strict := b.Succs[1]
			if neg {
				strict = b.Succs[0]
			}
			// every path from the strict side reaches a raise (a panic or a call that does not return) without a store
			// to memory, a cursor advance or a return on the way; a branch on the way (which of two messages to raise)
			// is fine when each of its sides raises
			okRaise, why := false, ""
			onPath := map[*ssa.BasicBlock]bool{}
			var visit func(blk *ssa.BasicBlock, depth int) bool
			visit = func(blk *ssa.BasicBlock, depth int) bool {
				if depth > 12 || onPath[blk] {
					if why == "" {
						why = "runs into a loop before raising"
					}
					return false
				}
				onPath[blk] = true
				defer func() { onPath[blk] = false }()
				dead := w.deadAt(blk)
				for i, in := range blk.Instrs {
					if dead >= 0 && i == dead {
						return true
					}
					switch x := in.(type) {
					case *ssa.Panic:
						return true
					case *ssa.Return:
						if why == "" {
							why = "can return without raising (" + w.pos(lastPos(blk)) + ")"
						}
						return false
					case *ssa.Store:
						if _, isLocal := x.Addr.(*ssa.Alloc); !isLocal {
							if ia, isIA := x.Addr.(*ssa.IndexAddr); !isIA || localRoot(ia) == nil {
								if why == "" {
									why = "stores to memory before raising (" + w.pos(x.Pos()) + ")"
								}
								return false
							}
						}
					case ssa.CallInstruction:
						if w.isAdvancingCall(in) {
							if why == "" {
								why = "advances the cursor before raising"
							}
							return false
						}
					}
				}
				if len(blk.Succs) == 0 {
					if why == "" {
						why = "does not raise"
					}
					return false
				}
				for _, s := range blk.Succs {
					if !visit(s, depth+1) {
						return false
					}
				}
				return true
			}
			okRaise = visit(strict, 0)
			if okRaise && why == "" {
				r.ok(rule, construct, w.pos(lastPos(b)), "the strict side only raises")
			} else {
				if why == "" {
					why = "does not raise"
				}
				r.bad(rule, construct, w.pos(lastPos(b)), "with noPanic == false this branch "+why+": the recovery-mode lexer and NextToken can produce different tokens on text that lexes cleanly")
			}
		}
	}
	if n == 0 {
		r.errorf("no branch on a noPanic parameter found in the lexer")
	}
}

// isCloneValue: v is the result of Token.Clone(), or of a function of the module that returns only such results.
func (w *World) isCloneValue(v ssa.Value, depth int) bool {
	c, ok := v.(*ssa.Call)
	if !ok || depth > 3 {
		return false
	}
	callee := c.Call.StaticCallee()
	if callee == nil {
		return false
	}
	if callee == w.TKAI().tokCl {
		return true
	}
	if callee.Blocks == nil || fnPkgPath(callee) != modRoot {
		return false
	}
	n := 0
	for _, b := range callee.Blocks {
		if ret, ok := b.Instrs[len(b.Instrs)-1].(*ssa.Return); ok {
			n++
			if len(ret.Results) != 1 {
				return false
			}
			for _, o := range phiOrigins(ret.Results[0]) {
				if !w.isCloneValue(o, depth+1) {
					return false
				}
			}
		}
	}
	return n > 0
}

func ruleC10R3(w *World, r *Report) {
	const rule = "C10/R3"
	r.rule(rule, "every value that becomes an element of BadNode.Tokens is the result of Token.Clone(); the live token is never aliased into the AST", 2)
	n := 0
	consumes := w.c10Consumes()
	for _, cs := range w.badNodeSites() {
		fn := cs.fn
		tv := cs.fields["Tokens"]
		if tv == nil {
			continue
		}
		n++
		construct := "elements of BadNode.Tokens in " + funcName(fn)
		bad := ""
		for _, o := range phiOrigins(tv) {
			if isNilConst(o) {
				continue
			}
			call, ok := o.(*ssa.Call)
			if !ok {
				bad = "built from " + o.String()
				continue
			}
			if cal := call.Call.StaticCallee(); cal != nil && w.appendCloneAndAdvance(cal, consumes) {
				// the list-returning record-and-advance helper appends a Token.Clone() result to the list it is given
				continue
			}
			bi, ok := call.Call.Value.(*ssa.Builtin)
			if !ok || bi.Name() != "append" {
				bad = "built by " + call.String()
				continue
			}
			// variadic elements
			if sl, ok := call.Call.Args[1].(*ssa.Slice); ok {
				if arr, ok := sl.X.(*ssa.Alloc); ok {
					for _, u := range referrers(arr) {
						if ia, ok := u.(*ssa.IndexAddr); ok {
							for _, su := range referrers(ia) {
								if st, ok := su.(*ssa.Store); ok && st.Addr == ssa.Value(ia) {
									if !w.isCloneValue(st.Val, 0) {
										bad = "an element is " + st.Val.String() + ", not a Token.Clone() result"
									}
								}
							}
						}
					}
				}
			}
		}
		if bad != "" {
			r.bad(rule, construct, w.pos(cs.at.Pos()), bad+": the Bad node would alias the lexer's live token and change under the caller")
		} else {
			r.ok(rule, construct, w.pos(cs.at.Pos()), "all elements are Token.Clone() results")
		}
	}
	if n < 1 {
		r.errorf("expected four BadNode literals with Tokens, found %d", n)
	}
}

func ruleC10R4(w *World, r *Report) {
	const rule = "C10/R4"
	r.rule(rule, "(*BadNode).SQL: the condition under which a separator is written between two raw tokens reads both Token.Space and Token.Comments (or there is no condition on trivia at all); raw token text is written from Token.Raw; every path that appends a later token without the separator takes an edge that refutes a non-empty Space and one that refutes a non-empty Comments", 3)
	var bn *NodeStruct
	for _, ns := range w.Catalog().Structs {
		if ns.Name == "BadNode" {
			bn = ns
		}
	}
	if bn == nil {
		r.errorf("ast.BadNode not found")
		return
	}
	m := w.nodeMethod(bn, "SQL")
	if m == nil {
		r.errorf("(*BadNode).SQL not found")
		return
	}
	readsSpace, readsComments, readsRaw := false, false, false
	for _, b := range m.Blocks {
		for _, in := range b.Instrs {
			fa, ok := in.(*ssa.FieldAddr)
			if !ok || !w.isTokenPtr(fa.X.Type()) {
				continue
			}
			name := fieldAddrName(fa)
			// does the loaded value feed a branch condition?
			feedsCond := false
			for _, u := range referrers(fa) {
				if ld, ok := u.(*ssa.UnOp); ok {
					sl := w.forwardSlice([]ssa.Value{ld}, nil)
					for v := range sl {
						for _, vu := range referrers(v) {
							if _, isIf := vu.(*ssa.If); isIf {
								feedsCond = true
							}
						}
					}
				}
			}
			switch name {
			case "Space":
				readsSpace = readsSpace || feedsCond
			case "Comments":
				readsComments = readsComments || feedsCond
			case "Raw":
				readsRaw = true
			}
		}
	}
	switch {
	case !readsRaw:
		r.bad(rule, "(*BadNode).SQL", w.pos(m.Pos()), "the raw spelling of the skipped tokens is not what is printed")
	case readsSpace != readsComments:
		r.bad(rule, "(*BadNode).SQL", w.pos(m.Pos()), fmt.Sprintf("the separator between two raw tokens depends on Space=%v but on Comments=%v: tokens separated only by a comment (a/*c*/b) are glued together and re-lex differently", readsSpace, readsComments))
	default:
		r.ok(rule, "(*BadNode).SQL", w.pos(m.Pos()), "separator decided from both trivia fields; token text from Raw")
	}
	// Path form: a token whose Space (resp. Comments) is non-empty is never appended without the separator, unless it is the first one.
	var sepBlocks, rawBlocks []*ssa.BasicBlock
	for _, b := range m.Blocks {
		for _, in := range b.Instrs {
			bo, ok := in.(*ssa.BinOp)
			if !ok || bo.Op != token.ADD || !isStringType(bo.Type()) {
				continue
			}
			if c, ok := bo.Y.(*ssa.Const); ok && c.Value != nil && constant.StringVal(c.Value) != "" && strings.TrimSpace(constant.StringVal(c.Value)) == "" {
				sepBlocks = append(sepBlocks, b)
			}
			if f, ok := w.tokenFieldLoad(bo.Y); ok && f == "Raw" {
				rawBlocks = append(rawBlocks, b)
			}
		}
	}
	// the same through a strings.Builder / bytes.Buffer: WriteByte(' ') / WriteString(" "), WriteString(tok.Raw)
	isWriter := func(c *ssa.Call) string {
		sc := c.Call.StaticCallee()
		if sc == nil || sc.Signature.Recv() == nil || sc.Pkg == nil {
			return ""
		}
		if p := sc.Pkg.Pkg.Path(); p != "strings" && p != "bytes" {
			return ""
		}
		return sc.Name()
	}
	for _, b := range m.Blocks {
		for _, in := range b.Instrs {
			c, ok := in.(*ssa.Call)
			if !ok || len(c.Call.Args) != 2 {
				continue
			}
			switch isWriter(c) {
			case "WriteByte", "WriteRune":
				if k, isC := constInt(c.Call.Args[1]); isC && (k == ' ' || k == '\n' || k == '\t') {
					sepBlocks = append(sepBlocks, b)
				}
			case "WriteString":
				if sv, isC := constString(c.Call.Args[1]); isC && sv != "" && strings.TrimSpace(sv) == "" {
					sepBlocks = append(sepBlocks, b)
				}
				if f, ok := w.tokenFieldLoad(c.Call.Args[1]); ok && f == "Raw" {
					rawBlocks = append(rawBlocks, b)
				}
			}
		}
	}
	if len(sepBlocks) != 1 || len(rawBlocks) != 1 {
		r.undecided(rule, "(*BadNode).SQL separator", w.pos(m.Pos()), fmt.Sprintf("%d blocks append a blank, %d append Token.Raw (want one each)", len(sepBlocks), len(rawBlocks)))
		return
	}
	sep, raw := sepBlocks[0], rawBlocks[0]
	var head *ssa.BasicBlock
	for _, l := range naturalLoops(m) {
		if l.body[raw] {
			head = l.header
		}
	}
	if head == nil {
		r.undecided(rule, "(*BadNode).SQL separator", w.pos(m.Pos()), "Token.Raw is not appended in a loop")
		return
	}
	for _, field := range []string{"Space", "Comments"} {
		// edges that can only be taken when the field is empty, or when nothing has been written yet
		refuted := func(b *ssa.BasicBlock, succ int) bool {
			iff, ok := b.Instrs[len(b.Instrs)-1].(*ssa.If)
			if !ok {
				return false
			}
			if w.impliedByNonEmpty(iff.Cond, field) && succ == 1 {
				return true
			}
			if w.refutedByNonEmpty(iff.Cond, field) && succ == 0 {
				return true
			}
			// a predicate of the module asked about the token (separatedFromPrevious(tok)): true whenever the field is non-empty
			if c, ok := iff.Cond.(*ssa.Call); ok && succ == 1 {
				if h := c.Call.StaticCallee(); h != nil && corePkg(fnPkgPath(h)) && w.predImpliedByNonEmpty(h, field) {
					return true
				}
			}
			// the accumulator is a Builder: `sql.Len() > 0` / `!= 0`
			if bo, ok := iff.Cond.(*ssa.BinOp); ok {
				if c, ok := bo.X.(*ssa.Call); ok && isWriter(c) == "Len" && constIntIs(bo.Y, 0) {
					return ((bo.Op == token.GTR || bo.Op == token.NEQ) && succ == 1) || (bo.Op == token.EQL && succ == 0)
				}
			}
			// sql != "" (the accumulator: a string phi of the loop head)
			if bo, ok := iff.Cond.(*ssa.BinOp); ok && isStringType(bo.X.Type()) {
				if ph, isPhi := bo.X.(*ssa.Phi); isPhi && ph.Block() == head {
					if c, ok := bo.Y.(*ssa.Const); ok && c.Value != nil && constant.StringVal(c.Value) == "" {
						return (bo.Op == token.NEQ && succ == 1) || (bo.Op == token.EQL && succ == 0)
					}
				}
			}
			return false
		}
		seen := map[*ssa.BasicBlock]bool{}
		var bypass func(b *ssa.BasicBlock) bool
		bypass = func(b *ssa.BasicBlock) bool {
			if b == sep || seen[b] {
				return false
			}
			seen[b] = true
			if b == raw {
				return true
			}
			for i, s := range b.Succs {
				if refuted(b, i) {
					continue
				}
				if s == head {
					continue
				}
				if bypass(s) {
					return true
				}
			}
			return false
		}
		// start after the loop head's own test
		found := false
		for _, s := range head.Succs {
			if s != head && bypass(s) {
				found = true
			}
		}
		construct := "(*BadNode).SQL separator when Token." + field + " is non-empty"
		if found {
			r.bad(rule, construct, w.pos(sep.Instrs[0].Pos()), "a token that is not the first and has a non-empty "+field+" can be appended without the separator: no test of the form len(tok."+field+") > 0 guards the path that skips it (a/*c*/b and a b must not print as ab)")
		} else {
			r.ok(rule, construct, w.pos(sep.Instrs[0].Pos()), "every path that skips the separator takes the empty-"+field+" edge or the nothing-written-yet edge")
		}
	}
}

// tokenFieldLoad: v is a load of <*token.Token>.<field>.
func (w *World) tokenFieldLoad(v ssa.Value) (string, bool) {
	addr, ok := isLoad(v)
	if !ok {
		return "", false
	}
	fa, ok := addr.(*ssa.FieldAddr)
	if !ok || !w.isTokenPtr(fa.X.Type()) {
		return "", false
	}
	return fieldAddrName(fa), true
}

// lenSumOf: v is non-negative and positive whenever Token.<field> is non-empty: len(tok.field) or a sum of it with other lengths.
func (w *World) lenSumOf(v ssa.Value, field string, depth int) bool {
	if depth > 4 {
		return false
	}
	switch x := v.(type) {
	case *ssa.Call:
		if bi, ok := x.Call.Value.(*ssa.Builtin); ok && bi.Name() == "len" {
			return w.containsField(x.Call.Args[0], field, map[ssa.Value]bool{})
		}
	case *ssa.BinOp:
		if x.Op == token.ADD {
			return (w.lenSumOf(x.X, field, depth+1) && isLenLike(x.Y)) || (w.lenSumOf(x.Y, field, depth+1) && isLenLike(x.X))
		}
	}
	return false
}

// containsField: v is Token.<field> or a string built by concatenation that contains it on every path
// (phis are treated co-inductively: a loop that only appends keeps what it started with).
func (w *World) containsField(v ssa.Value, field string, seen map[ssa.Value]bool) bool {
	if f, ok := w.tokenFieldLoad(v); ok {
		return f == field
	}
	if seen[v] {
		return true
	}
	seen[v] = true
	switch x := v.(type) {
	case *ssa.BinOp:
		if x.Op == token.ADD && isStringType(x.Type()) {
			return w.containsField(x.X, field, seen) || w.containsField(x.Y, field, seen)
		}
	case *ssa.Phi:
		for _, e := range x.Edges {
			if !w.containsField(e, field, seen) {
				return false
			}
		}
		return true
	}
	return false
}

func isLenLike(v ssa.Value) bool {
	switch x := v.(type) {
	case *ssa.Call:
		bi, ok := x.Call.Value.(*ssa.Builtin)
		return ok && bi.Name() == "len"
	case *ssa.BinOp:
		return x.Op == token.ADD && isLenLike(x.X) && isLenLike(x.Y)
	case *ssa.Const:
		return x.Value != nil && x.Value.Kind() == constant.Int && constant.Sign(x.Value) >= 0
	}
	return false
}

func constIntIs(v ssa.Value, k int64) bool {
	c, ok := v.(*ssa.Const)
	if !ok || c.Value == nil || c.Value.Kind() != constant.Int {
		return false
	}
	i, exact := constant.Int64Val(c.Value)
	return exact && i == k
}

// impliedByNonEmpty: cond is true whenever Token.<field> is non-empty.
// predImpliedByNonEmpty: h(tok) bool answers true whenever tok.<field> is non-empty: no path through h that avoids the
// edges a non-empty field rules out ends in a false answer.
func (w *World) predImpliedByNonEmpty(h *ssa.Function, field string) bool {
	if h.Blocks == nil || len(h.Params) != 1 || h.Signature.Results().Len() != 1 || len(naturalLoops(h)) > 0 {
		return false
	}
	excluded := func(b *ssa.BasicBlock, succ int) bool {
		iff, ok := b.Instrs[len(b.Instrs)-1].(*ssa.If)
		if !ok {
			return false
		}
		return (w.impliedByNonEmpty(iff.Cond, field) && succ == 1) || (w.refutedByNonEmpty(iff.Cond, field) && succ == 0)
	}
	// blocks and edges reachable when the field is non-empty
	reach := map[*ssa.BasicBlock]bool{h.Blocks[0]: true}
	edge := map[[2]*ssa.BasicBlock]bool{}
	work := []*ssa.BasicBlock{h.Blocks[0]}
	for len(work) > 0 {
		b := work[0]
		work = work[1:]
		for i, sb := range b.Succs {
			if excluded(b, i) {
				continue
			}
			edge[[2]*ssa.BasicBlock{b, sb}] = true
			if !reach[sb] {
				reach[sb] = true
				work = append(work, sb)
			}
		}
	}
	var mayBeFalse func(v ssa.Value, at *ssa.BasicBlock, seen map[ssa.Value]bool) bool
	mayBeFalse = func(v ssa.Value, at *ssa.BasicBlock, seen map[ssa.Value]bool) bool {
		if b, ok := constBool(v); ok {
			return !b
		}
		if w.impliedByNonEmpty(v, field) {
			return false
		}
		if phi, ok := v.(*ssa.Phi); ok && !seen[v] {
			seen[v] = true
			for i, e := range phi.Edges {
				p := phi.Block().Preds[i]
				if !reach[p] || !edge[[2]*ssa.BasicBlock{p, phi.Block()}] {
					continue
				}
				if mayBeFalse(e, p, seen) {
					return true
				}
			}
			return false
		}
		return true
	}
	n := 0
	for _, b := range h.Blocks {
		ret, ok := b.Instrs[len(b.Instrs)-1].(*ssa.Return)
		if !ok {
			continue
		}
		n++
		if reach[b] && mayBeFalse(ret.Results[0], b, map[ssa.Value]bool{}) {
			return false
		}
	}
	return n > 0
}

func (w *World) impliedByNonEmpty(cond ssa.Value, field string) bool {
	bo, ok := cond.(*ssa.BinOp)
	if !ok {
		return false
	}
	switch bo.Op {
	case token.GTR:
		return w.lenSumOf(bo.X, field, 0) && constIntIs(bo.Y, 0)
	case token.GEQ:
		return w.lenSumOf(bo.X, field, 0) && constIntIs(bo.Y, 1)
	case token.LSS:
		return w.lenSumOf(bo.Y, field, 0) && constIntIs(bo.X, 0)
	case token.LEQ:
		return w.lenSumOf(bo.Y, field, 0) && constIntIs(bo.X, 1)
	case token.NEQ:
		if w.lenSumOf(bo.X, field, 0) && constIntIs(bo.Y, 0) {
			return true
		}
		if f, ok := w.tokenFieldLoad(bo.X); ok && f == field {
			if c, ok := bo.Y.(*ssa.Const); ok && c.Value != nil && c.Value.Kind() == constant.String && constant.StringVal(c.Value) == "" {
				return true
			}
		}
	}
	return false
}

// refutedByNonEmpty: cond is false whenever Token.<field> is non-empty.
func (w *World) refutedByNonEmpty(cond ssa.Value, field string) bool {
	bo, ok := cond.(*ssa.BinOp)
	if !ok {
		return false
	}
	switch bo.Op {
	case token.EQL:
		if w.lenSumOf(bo.X, field, 0) && constIntIs(bo.Y, 0) {
			return true
		}
		if f, ok := w.tokenFieldLoad(bo.X); ok && f == field {
			if c, ok := bo.Y.(*ssa.Const); ok && c.Value != nil && c.Value.Kind() == constant.String && constant.StringVal(c.Value) == "" {
				return true
			}
		}
	case token.LEQ:
		return w.lenSumOf(bo.X, field, 0) && constIntIs(bo.Y, 0)
	case token.LSS:
		return w.lenSumOf(bo.X, field, 0) && constIntIs(bo.Y, 1)
	}
	return false
}

// instrDominates: a is executed before b on every path that reaches b.
func instrDominates(a, b ssa.Instruction) bool {
	if a.Block() != b.Block() {
		return a.Block().Dominates(b.Block())
	}
	ia, ib := -1, -1
	for i, in := range a.Block().Instrs {
		if in == a {
			ia = i
		}
		if in == b {
			ib = i
		}
	}
	return ia >= 0 && ia < ib
}

// ruleC10R5: a recorded token is the token. Token.Clone is what the skip loops store in BadNode.Tokens: the copy has to
// carry every field of the original (Space and Comments decide the separator BadNode.SQL writes, Raw the text).
func ruleC10R5(w *World, r *Report) {
	const rule = "C10/R5"
	r.rule(rule, "(*Token).Clone returns a whole-struct copy of its receiver; a field of the copy that is assigned again is given a slice with the same elements (append(empty, src...) or make(T, len(src)) filled by copy): nothing a recorded token needs — Space, Comments, Raw, Pos, End — is lost in the copy", 1)
	fn := w.fn(w.Tok, "(*Token).Clone")
	if fn == nil {
		r.errorf("(*Token).Clone not found")
		return
	}
	recv := fn.Params[0]
	var cp *ssa.Alloc
	whole := false
	for _, b := range fn.Blocks {
		for _, in := range b.Instrs {
			st, ok := in.(*ssa.Store)
			if !ok {
				continue
			}
			if al, ok := st.Addr.(*ssa.Alloc); ok && w.isTokenPtr(al.Type()) {
				if src, ok := isLoad(st.Val); ok && src == ssa.Value(recv) {
					cp, whole = al, true
				}
			}
		}
	}
	construct := "(*Token).Clone"
	if !whole {
		r.bad(rule, construct, w.pos(fn.Pos()), "the result is not a whole-struct copy of the receiver: fields of the token can be missing from recorded tokens")
		return
	}
	// the copy is what is returned
	for _, b := range fn.Blocks {
		if ret, ok := b.Instrs[len(b.Instrs)-1].(*ssa.Return); ok {
			if len(ret.Results) != 1 || ret.Results[0] != ssa.Value(cp) {
				r.bad(rule, construct, w.pos(lastPos(b)), "the value returned is not the copy")
				return
			}
		}
	}
	var problems []string
	for _, u := range referrers(cp) {
		fa, ok := u.(*ssa.FieldAddr)
		if !ok {
			continue
		}
		for _, fu := range referrers(fa) {
			st, ok := fu.(*ssa.Store)
			if !ok || st.Addr != ssa.Value(fa) {
				continue
			}
			f := fieldAddrName(fa)
			isSrc := func(v ssa.Value) bool {
				addr, ok := isLoad(v)
				if !ok {
					return false
				}
				sfa, ok := addr.(*ssa.FieldAddr)
				return ok && sfa.X == ssa.Value(recv) && fieldAddrName(sfa) == f
			}
			okv := false
			switch x := st.Val.(type) {
			case *ssa.Call:
				if bi, ok := x.Call.Value.(*ssa.Builtin); ok && bi.Name() == "append" && len(x.Call.Args) == 2 && isSrc(x.Call.Args[1]) {
					// append(nil / empty, src...)
					switch a0 := x.Call.Args[0].(type) {
					case *ssa.Const:
						okv = a0.IsNil()
					case *ssa.MakeSlice:
						if k, isC := constInt(a0.Len); isC && k == 0 {
							okv = true
						}
					}
				}
				if sc := x.Call.StaticCallee(); sc != nil && sc.Pkg != nil && sc.Pkg.Pkg.Path() == "slices" && sc.Name() == "Clone" && len(x.Call.Args) == 1 && isSrc(x.Call.Args[0]) {
					okv = true
				}
			case *ssa.MakeSlice:
				// make(T, len(src)[, cap]) + copy(dst, src)
				lenOK := false
				if c, ok := x.Len.(*ssa.Call); ok {
					if bi, ok := c.Call.Value.(*ssa.Builtin); ok && bi.Name() == "len" && isSrc(c.Call.Args[0]) {
						lenOK = true
					}
				}
				copied := false
				for _, bb := range fn.Blocks {
					for _, in := range bb.Instrs {
						if c, ok := in.(*ssa.Call); ok {
							if bi, ok := c.Call.Value.(*ssa.Builtin); ok && bi.Name() == "copy" && len(c.Call.Args) == 2 && isSrc(c.Call.Args[1]) {
								copied = true
							}
						}
					}
				}
				if !lenOK {
					problems = append(problems, fmt.Sprintf("%s of the copy is replaced by a slice whose length is not len(t.%s): copy() fills only len(dst) elements", f, f))
				}
				okv = lenOK && copied
			}
			if !okv {
				problems = append(problems, fmt.Sprintf("%s of the copy is assigned a value that is not a copy of t.%s", f, f))
			}
		}
	}
	if len(problems) > 0 {
		r.bad(rule, construct, w.pos(fn.Pos()), strings.Join(uniqSorted(problems), "; ")+": BadNode.Tokens no longer records what BadNode.SQL needs")
	} else {
		r.ok(rule, construct, w.pos(fn.Pos()), "whole-struct copy; no field replaced by something else than a copy of itself")
	}
}
