package main

import "testing"

func TestMinJoin(t *testing.T) {
	at := newAtomTable()
	P := at.get("P", "pos", false)
	N := at.get("N", "N", false)
	at.prio[P], at.prio[N] = -1, -1
	i := at.get("i", "i", false)
	q := at.get("q", "len(q)", true)
	t6 := at.get("t6", "t6", false)
	at.prio[t6] = 1
	v := at.get("v", "v", false)
	st := emptyState().ge(linAtom(P), linConst(0)).ge(linAtom(N), linAtom(P).add(linAtom(i)).add(linConst(1))).
		ge(linAtom(i), linAtom(q)).ge(linAtom(i), linConst(1)).ge(linConst(3), linAtom(q)).ge(linAtom(q), linConst(1)).
		eq(linAtom(t6), linAtom(P))
	a := linAtom(i).add(linAtom(q))
	b := linAtom(N).sub(linAtom(t6))
	d := b.sub(a)
	s1 := st.with(lfact{l: d}).eq(linAtom(v), a)
	s2 := st.with(lfact{l: d.scale(-1)}).eq(linAtom(v), b)
	t.Log("s1", at.showState(s1))
	t.Log("s2", at.showState(s2))
	j := joinLin(at, []*lstate{s1, s2}, [][]lin{{linAtom(v).sub(a)}, {linAtom(v).sub(b)}}, nil)
	t.Log("join", at.showState(j))
	if !j.proves(at, lfact{l: linAtom(i).add(linConst(-1))}) {
		t.Fatal("lost i >= 1")
	}
}
