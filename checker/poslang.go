package main

import (
	"fmt"
	"strconv"
	"strings"
	"unicode"
)

// The checker's own parser for the position-expression language, written from the EBNF in the
// documentation of package ast (not from tools/util/poslang):
//
//	PosChoice -> PosExpr ("||" PosExpr)*
//	PosExpr   -> PosAtom ("+" IntAtom)*
//	PosAtom   -> PosVar | NodeExpr "." ("pos" | "end")
//	NodeExpr  -> NodeAtom | "(" NodeAtom ("??" NodeAtom)* ")"
//	NodeAtom  -> NodeVar | NodeSliceVar "[" (IntAtom | "$") "]"
//	IntAtom   -> IntVal | "len" "(" StringVar ")" | "(" BoolVar "?" IntAtom ":" IntAtom ")"

type PExpr interface{ pexpr() } // token.Pos typed
type NExpr interface{ nexpr() } // ast.Node typed
type IExpr interface{ iexpr() } // int typed

type PChoice struct{ Alts []PExpr }
type PAdd struct {
	X PExpr
	N IExpr
}
type PVar struct{ Name string }
type PNode struct {
	N   NExpr
	End bool
}

type NVar struct{ Name string }
type NIndex struct {
	Slice string
	Index IExpr
}
type NLast struct{ Slice string }
type NChoice struct{ Alts []NExpr }

type ILit struct{ V int }
type ILen struct{ Var string }
type ICond struct {
	Var  string
	T, E IExpr
}

func (*PChoice) pexpr() {}
func (*PAdd) pexpr()    {}
func (*PVar) pexpr()    {}
func (*PNode) pexpr()   {}
func (*NVar) nexpr()    {}
func (*NIndex) nexpr()  {}
func (*NLast) nexpr()   {}
func (*NChoice) nexpr() {}
func (*ILit) iexpr()    {}
func (*ILen) iexpr()    {}
func (*ICond) iexpr()   {}

type plTok struct {
	kind string // "id", "int", or the punctuation itself
	text string
}

func plLex(s string) ([]plTok, error) {
	var out []plTok
	rs := []rune(s)
	for i := 0; i < len(rs); {
		c := rs[i]
		switch {
		case unicode.IsSpace(c):
			i++
		case unicode.IsLetter(c):
			j := i
			for j < len(rs) && (unicode.IsLetter(rs[j]) || unicode.IsDigit(rs[j]) || rs[j] == '_') {
				j++
			}
			out = append(out, plTok{"id", string(rs[i:j])})
			i = j
		case unicode.IsDigit(c):
			j := i
			for j < len(rs) && unicode.IsDigit(rs[j]) {
				j++
			}
			out = append(out, plTok{"int", string(rs[i:j])})
			i = j
		case c == '|' && i+1 < len(rs) && rs[i+1] == '|':
			out = append(out, plTok{"||", "||"})
			i += 2
		case c == '?' && i+1 < len(rs) && rs[i+1] == '?':
			out = append(out, plTok{"??", "??"})
			i += 2
		case strings.ContainsRune("+.()[]$?:", c):
			out = append(out, plTok{string(c), string(c)})
			i++
		default:
			return nil, fmt.Errorf("unexpected character %q", c)
		}
	}
	return out, nil
}

type plParser struct {
	toks []plTok
	i    int
}

func (p *plParser) peek() string {
	if p.i < len(p.toks) {
		return p.toks[p.i].kind
	}
	return "<end>"
}
func (p *plParser) accept(k string) bool {
	if p.peek() == k {
		p.i++
		return true
	}
	return false
}
func (p *plParser) expect(k string) string {
	if p.peek() != k {
		panic(fmt.Errorf("expected %s, got %s", k, p.peek()))
	}
	t := p.toks[p.i].text
	p.i++
	return t
}

func parsePosLang(s string) (e PExpr, err error) {
	toks, err := plLex(s)
	if err != nil {
		return nil, err
	}
	defer func() {
		if r := recover(); r != nil {
			e, err = nil, fmt.Errorf("%v", r)
		}
	}()
	p := &plParser{toks: toks}
	e = p.posChoice()
	if p.peek() != "<end>" {
		panic(fmt.Errorf("trailing input at token %d (%s)", p.i, p.peek()))
	}
	return e, nil
}

func (p *plParser) posChoice() PExpr {
	first := p.posExpr()
	if p.peek() != "||" {
		return first
	}
	c := &PChoice{Alts: []PExpr{first}}
	for p.accept("||") {
		c.Alts = append(c.Alts, p.posExpr())
	}
	return c
}

func (p *plParser) posExpr() PExpr {
	e := p.posAtom()
	for p.accept("+") {
		e = &PAdd{X: e, N: p.intAtom()}
	}
	return e
}

func (p *plParser) posAtom() PExpr {
	n := p.nodeExpr()
	if p.accept(".") {
		switch sel := p.expect("id"); sel {
		case "pos":
			return &PNode{N: n}
		case "end":
			return &PNode{N: n, End: true}
		default:
			panic(fmt.Errorf(`expected "pos" or "end" after ".", got %q`, sel))
		}
	}
	if v, ok := n.(*NVar); ok {
		return &PVar{Name: v.Name}
	}
	panic(fmt.Errorf("node expression used as a position without .pos/.end"))
}

func (p *plParser) nodeExpr() NExpr {
	if p.accept("(") {
		c := &NChoice{Alts: []NExpr{p.nodeAtom()}}
		for p.accept("??") {
			c.Alts = append(c.Alts, p.nodeAtom())
		}
		p.expect(")")
		return c
	}
	return p.nodeAtom()
}

func (p *plParser) nodeAtom() NExpr {
	name := p.expect("id")
	if !p.accept("[") {
		return &NVar{Name: name}
	}
	if p.accept("$") {
		p.expect("]")
		return &NLast{Slice: name}
	}
	idx := p.intAtom()
	p.expect("]")
	return &NIndex{Slice: name, Index: idx}
}

func (p *plParser) intAtom() IExpr {
	if p.accept("(") {
		v := p.expect("id")
		p.expect("?")
		t := p.intAtom()
		p.expect(":")
		e := p.intAtom()
		p.expect(")")
		return &ICond{Var: v, T: t, E: e}
	}
	if p.peek() == "int" {
		n, err := strconv.Atoi(p.expect("int"))
		if err != nil {
			panic(err)
		}
		return &ILit{V: n}
	}
	if id := p.expect("id"); id != "len" {
		panic(fmt.Errorf(`expected integer, "len(" or "(", got %q`, id))
	}
	p.expect("(")
	v := p.expect("id")
	p.expect(")")
	return &ILen{Var: v}
}

// ---- translation to the Go expression the helpers of pos_util.go denote -------------------

func pToGo(e PExpr, x string) string {
	switch e := e.(type) {
	case *PChoice:
		var ss []string
		for _, a := range e.Alts {
			ss = append(ss, pToGo(a, x))
		}
		return "posChoice(" + strings.Join(ss, ", ") + ")"
	case *PAdd:
		return "posAdd(" + pToGo(e.X, x) + ", " + iToGo(e.N, x) + ")"
	case *PVar:
		return x + "." + e.Name
	case *PNode:
		if e.End {
			return "nodeEnd(" + nToGo(e.N, x) + ")"
		}
		return "nodePos(" + nToGo(e.N, x) + ")"
	}
	panic("pToGo")
}

func nToGo(e NExpr, x string) string {
	switch e := e.(type) {
	case *NVar:
		return "wrapNode(" + x + "." + e.Name + ")"
	case *NIndex:
		return "nodeSliceIndex(" + x + "." + e.Slice + ", " + iToGo(e.Index, x) + ")"
	case *NLast:
		return "nodeSliceLast(" + x + "." + e.Slice + ")"
	case *NChoice:
		var ss []string
		for _, a := range e.Alts {
			ss = append(ss, nToGo(a, x))
		}
		return "nodeChoice(" + strings.Join(ss, ", ") + ")"
	}
	panic("nToGo")
}

func iToGo(e IExpr, x string) string {
	switch e := e.(type) {
	case *ILit:
		return strconv.Itoa(e.V)
	case *ILen:
		return "len(" + x + "." + e.Var + ")"
	case *ICond:
		return "ifThenElse(" + x + "." + e.Var + ", " + iToGo(e.T, x) + ", " + iToGo(e.E, x) + ")"
	}
	panic("iToGo")
}

func pString(e PExpr) string {
	switch e := e.(type) {
	case *PChoice:
		var ss []string
		for _, a := range e.Alts {
			ss = append(ss, pString(a))
		}
		return strings.Join(ss, " || ")
	case *PAdd:
		return pString(e.X) + " + " + iToGo(e.N, "")
	case *PVar:
		return e.Name
	case *PNode:
		s := nString(e.N)
		if e.End {
			return s + ".end"
		}
		return s + ".pos"
	}
	return "?"
}

func nString(e NExpr) string {
	switch e := e.(type) {
	case *NVar:
		return e.Name
	case *NIndex:
		return e.Slice + "[" + iToGo(e.Index, "") + "]"
	case *NLast:
		return e.Slice + "[$]"
	case *NChoice:
		var ss []string
		for _, a := range e.Alts {
			ss = append(ss, nString(a))
		}
		return "(" + strings.Join(ss, " ?? ") + ")"
	}
	return "?"
}
