package main

import (
	"fmt"
	"go/token"
	"go/types"
	"sort"
	"strings"

	"golang.org/x/tools/go/ssa"
)

func init() {
	register(&propDef{
		ID: "C12",
		Explanation: "Shape rules on SplitRawStatements over its SSA: R1 every NextToken() result is tested and returned as the error; R2 delegation: the input string is used only as the lexer's buffer and as the operand of slice expressions whose bounds are token positions, and branch conditions depend only on Token.Kind against ';' / <eof>, on the error, on positions and on the result length — what counts as a literal or a comment is the lexer's knowledge alone; R3 in every RawStatement literal Statement is input[a:b] with the very values stored in Pos and End; pieces end at the position of the ';' (or <eof>) token; R4 the start of a piece after a ';' accounts for the comments attached to the next token (Token.Pos lies after them), or is the end of the ';' token; the loop is driven through TKAI: it leaves only at <eof> (C03/R4 gives termination). " +
			"Does not decide: ordering / non-overlap arithmetic.",
		Rules: []ruleFn{ruleC12, ruleC14R7, ruleC14R8, ruleC12R5, ruleC05R6, ruleC12R6},
	})
}

func ruleC12(w *World, r *Report) {
	fn := w.fn(w.Mem, "SplitRawStatements")
	if fn == nil {
		r.errorf("SplitRawStatements not found")
		return
	}
	r.rule("C12/R1", "every lex.NextToken() result is compared with nil and returned as the error on the non-nil edge", 1)
	r.rule("C12/R2", "the input string is only the lexer's Buffer and the operand of s[a:b]; conditions depend only on Token.Kind vs ';'/<eof>, the error, positions and len(result)", 2)
	r.rule("C12/R3", "RawStatement literals: Statement = s[a:b] with the same SSA values a, b that are stored in Pos and End; End is the position of the current (';' or <eof>) token", 2)
	r.rule("C12/R4", "the start of the piece that follows a ';' depends on the Comments of the next token (its Pos lies after its comments) or is the end of the ';' token", 1)

	strip := func(v ssa.Value) ssa.Value {
		for {
			switch x := v.(type) {
			case *ssa.Convert:
				v = x.X
			case *ssa.ChangeType:
				v = x.X
			default:
				return v
			}
		}
	}
	// R1
	nNext := 0
	for _, b := range fn.Blocks {
		for _, in := range b.Instrs {
			call, ok := in.(*ssa.Call)
			if !ok {
				continue
			}
			callee := call.Call.StaticCallee()
			if callee == nil || callee.Name() != "NextToken" {
				continue
			}
			nNext++
			construct := fmt.Sprintf("NextToken call %d in SplitRawStatements", nNext)
			okUse := false
			for _, u := range referrers(call) {
				bo, isBin := u.(*ssa.BinOp)
				if !isBin || !(isNilConst(bo.X) || isNilConst(bo.Y)) {
					continue
				}
				for _, u2 := range referrers(bo) {
					iff, isIf := u2.(*ssa.If)
					if !isIf {
						continue
					}
					errSucc := iff.Block().Succs[0]
					if bo.Op == token.EQL {
						errSucc = iff.Block().Succs[1]
					}
					if ret, isRet := errSucc.Instrs[len(errSucc.Instrs)-1].(*ssa.Return); isRet && len(ret.Results) == 2 && ret.Results[1] == ssa.Value(call) {
						okUse = true
					}
				}
			}
			if okUse {
				r.ok("C12/R1", construct, w.pos(call.Pos()), "err != nil returns (nil, err)")
			} else {
				r.bad("C12/R1", construct, w.pos(call.Pos()), "the error of NextToken is not returned: a lexical error is swallowed and the split goes on over a half-read token")
			}
		}
	}
	if nNext == 0 {
		r.errorf("no call of NextToken in SplitRawStatements")
	}
	// R2: uses of the string parameter
	var sParam *ssa.Parameter
	for _, p := range fn.Params {
		if bt, ok := p.Type().Underlying().(*types.Basic); ok && bt.Info()&types.IsString != 0 && p.Name() != "filepath" {
			sParam = p
		}
	}
	if len(fn.Params) == 2 {
		sParam = fn.Params[1]
	}
	if sParam == nil {
		r.errorf("input string parameter of SplitRawStatements not found")
		return
	}
	badUse := ""
	nSlices := 0
	for _, u := range referrers(sParam) {
		switch u := u.(type) {
		case *ssa.Slice:
			nSlices++
			for _, bnd := range []ssa.Value{u.Low, u.High} {
				if bnd == nil {
					continue
				}
				if !w.isPosDerived(strip(bnd)) {
					badUse = "slice bound at " + w.pos(u.Pos()) + " is not a token position"
				}
			}
		case *ssa.Store:
			if fa, ok := u.Addr.(*ssa.FieldAddr); !ok || fieldAddrName(fa) != "Buffer" {
				badUse = "stored somewhere other than File.Buffer at " + w.pos(u.Pos())
			}
		case *ssa.DebugRef:
		case *ssa.Call:
			if _, ok := w.pieceConstructor(u, sParam); ok {
				nSlices++
				continue
			}
			badUse = fmt.Sprintf("used by %T at %s (the splitter inspects the text itself)", u, w.pos(u.Pos()))
		default:
			badUse = fmt.Sprintf("used by %T at %s (the splitter inspects the text itself)", u, w.pos(u.Pos()))
		}
	}
	if badUse != "" {
		r.bad("C12/R2", "uses of the input string", w.pos(fn.Pos()), badUse)
	} else {
		r.ok("C12/R2", "uses of the input string", w.pos(fn.Pos()), fmt.Sprintf("lexer buffer + %d slices bounded by token positions", nSlices))
	}
	// conditions
	tk := w.TKAI()
	badCond := ""
	nCond := 0
	for _, b := range fn.Blocks {
		iff, ok := b.Instrs[len(b.Instrs)-1].(*ssa.If)
		if !ok {
			continue
		}
		nCond++
		if t, _, ok := tk.tokenTest(nil, iff.Cond); ok {
			if t.atom != ";" && t.atom != eofAtom {
				badCond = fmt.Sprintf("tests the token kind against %q at %s: only ';' and <eof> delimit statements", t.atom, w.pos(condPos(iff)))
			}
			continue
		}
		if bo, ok := iff.Cond.(*ssa.BinOp); ok {
			x, y := strip(bo.X), strip(bo.Y)
			switch {
			case isNilConst(x) || isNilConst(y):
				continue
			case w.isPosDerived(x) && w.isPosDerived(y):
				continue
			case isLenCall(x) || isLenCall(y):
				continue
			}
		}
		// a state flag of the loop: a boolean variable that only ever holds constants ("the next token starts a piece")
		if constFlag(iff.Cond, map[ssa.Value]bool{}) {
			continue
		}
		// … or that holds what a kind test against ';'/<eof> said about an earlier token (afterSemicolon = tok.Kind == ";")
		if kindFlag(iff.Cond, map[ssa.Value]bool{}, func(v ssa.Value) bool {
			t, _, ok := tk.tokenTest(nil, v)
			return ok && (t.atom == ";" || t.atom == eofAtom)
		}) {
			continue
		}
		badCond = "condition at " + w.pos(condPos(iff)) + " is not a kind test against ';'/<eof>, an error test, a position comparison, a length test or a flag of the loop"
	}
	if badCond != "" {
		r.bad("C12/R2", "branch conditions", w.pos(fn.Pos()), badCond)
	} else {
		r.ok("C12/R2", "branch conditions", w.pos(fn.Pos()), fmt.Sprintf("%d conditions: kind vs ';'/<eof>, err, positions, len", nCond))
	}
	// R3
	nLit := 0
	// the pieces: RawStatement literals of the function, and calls of a constructor helper
	// (newRawStatement(s, pos, end) = &RawStatement{Pos: pos, End: end, Statement: s[pos:end]}) read as such literals
	type pieceSite struct {
		at     ssa.Instruction
		fields map[string]ssa.Value
	}
	var pieces []pieceSite
	for _, b := range fn.Blocks {
		for _, in := range b.Instrs {
			switch x := in.(type) {
			case *ssa.Alloc:
				if isNamed(x.Type(), modRoot, "RawStatement") {
					pieces = append(pieces, pieceSite{x, allocFieldStores(x)})
				}
			case *ssa.Call:
				if f, ok := w.pieceConstructor(x, sParam); ok {
					pieces = append(pieces, pieceSite{x, f})
				}
			}
		}
	}
	for _, ps := range pieces {
		{
			al := ps.at
			fields := ps.fields
			nLit++
			construct := fmt.Sprintf("RawStatement literal %d", nLit)
			stv := fields["Statement"]
			if s, isC := constString(stv); isC && s == "" && fields["Pos"] == nil && fields["End"] == nil {
				r.trivial("C12/R3", construct, w.pos(al.Pos()), "the empty-input placeholder {Statement: \"\"}")
				continue
			}
			var lo, hi ssa.Value
			if clo, viaConstructor := fields["\x00lo"]; viaConstructor {
				// a constructor helper: Statement = s[a:b] with a, b its position arguments (checked in pieceConstructor)
				lo, hi = strip(clo), strip(fields["\x00hi"])
			} else {
				sl, isSl := stv.(*ssa.Slice)
				if !isSl || sl.X != ssa.Value(sParam) {
					r.bad("C12/R3", construct, w.pos(al.Pos()), "Statement is not a slice of the input string")
					continue
				}
				lo, hi = strip(sl.Low), strip(sl.High)
			}
			sameVal := func(a, b ssa.Value) bool {
				if a == b {
					return true
				}
				// two loads of the same field of the current token with no token fetched in between
				fa, _, oka := w.curTokenField(a)
				fb, _, okb := w.curTokenField(b)
				ia, isa := a.(ssa.Instruction)
				ib, isb := b.(ssa.Instruction)
				if !oka || !okb || fa != fb || !isa || !isb || ia.Block() != ib.Block() {
					return false
				}
				i, j := indexOf(ia.Block(), ia), indexOf(ib.Block(), ib)
				if i > j {
					i, j = j, i
				}
				for k := i; k < j; k++ {
					if c, ok := ia.Block().Instrs[k].(ssa.CallInstruction); ok {
						for _, cal := range w.Callees(c) {
							if tk.touchesLexer(cal) || cal.Name() == "NextToken" {
								return false
							}
						}
					}
				}
				return true
			}
			if fields["Pos"] == nil || fields["End"] == nil || !sameVal(strip(fields["Pos"]), lo) || !sameVal(strip(fields["End"]), hi) {
				r.bad("C12/R3", construct, w.pos(al.Pos()), "Statement is not input[Pos:End] for the very values stored in Pos and End")
				continue
			}
			if f, _, ok := w.curTokenField(hi); !ok || f != "Pos" {
				r.bad("C12/R3", construct, w.pos(al.Pos()), "End is not the position of the current (';' or <eof>) token")
				continue
			}
			// the current token is ';' or <eof> here
			st := tk.StateBefore(al)
			if st == nil || !(st.cur.Excludes(identAtom) && func() bool {
				as, fin := st.cur.Finite()
				if !fin {
					return false
				}
				for _, a := range as {
					if a != ";" && a != eofAtom {
						return false
					}
				}
				return true
			}()) {
				cur := "?"
				if st != nil {
					cur = st.cur.String()
				}
				r.bad("C12/R3", construct, w.pos(al.Pos()), "a piece is cut while the current token is "+cur+", not ';' or <eof>")
				continue
			}
			r.ok("C12/R3", construct, w.pos(al.Pos()), "Statement = s[Pos:End], End = position of the "+st.cur.String()+" token")
		}
	}
	if nLit < 2 {
		r.errorf("expected RawStatement literals in SplitRawStatements, found %d", nLit)
	}
	// R4: the piece start: values flowing into the lower bounds
	checked := false
	seen := map[ssa.Value]bool{}
	var origins func(v ssa.Value) []ssa.Value
	origins = func(v ssa.Value) []ssa.Value {
		v = strip(v)
		if seen[v] {
			return nil
		}
		seen[v] = true
		if p, ok := v.(*ssa.Phi); ok {
			var out []ssa.Value
			for _, e := range p.Edges {
				out = append(out, origins(e)...)
			}
			return out
		}
		return []ssa.Value{v}
	}
	for _, ps := range pieces {
		{
			pv := ps.fields["Pos"]
			if pv == nil {
				continue
			}
			for _, o := range origins(pv) {
				if c, isC := o.(*ssa.Const); isC {
					if k, ok := constInt(c); ok && k == 0 {
						continue // the first piece starts at offset 0
					}
				}
				checked = true
				construct := "piece start " + strings.TrimSpace(o.String())
				if f, _, ok := w.curTokenField(o); ok && f == "Pos" {
					// a bare Token.Pos: the comments before that token are cut off, unless the value is
					// chosen under a test of the token's Comments
					if w.controlDependsOnComments(o) {
						r.ok("C12/R4", construct, w.pos(o.Pos()), "Token.Pos is used only when the token has no leading comments")
					} else {
						r.bad("C12/R4", construct, w.pos(o.Pos()), "the piece after a ';' starts at Token.Pos of the next token; comments attached to that token lie before Token.Pos and fall between the pieces")
					}
					continue
				}
				if w.dependsOnComments(o) {
					r.ok("C12/R4", construct, w.pos(o.Pos()), "derived from the Comments of the next token")
					continue
				}
				if f, _, ok := w.curTokenField(o); ok && f == "End" {
					r.ok("C12/R4", construct, w.pos(o.Pos()), "the end of the ';' token")
					continue
				}
				r.undecided("C12/R4", construct, w.pos(o.Pos()), "unrecognised origin of a piece start")
			}
		}
	}
	if !checked {
		r.errorf("no piece start other than 0 found in SplitRawStatements")
	}
}

func isLenCall(v ssa.Value) bool {
	c, ok := v.(*ssa.Call)
	if !ok {
		return false
	}
	bi, ok := c.Call.Value.(*ssa.Builtin)
	return ok && bi.Name() == "len"
}

// isPosDerived: the value is a token.Pos (a token position, a constant offset, or a phi of those).
func (w *World) isPosDerived(v ssa.Value) bool {
	if w.isPosType(v.Type()) {
		return true
	}
	if _, ok := constInt(v); ok {
		return true
	}
	return false
}

// dependsOnComments: the value is loaded from Token.Comments[...] (Pos of a leading comment).
func (w *World) dependsOnComments(v ssa.Value) bool {
	seen := map[ssa.Value]bool{}
	var dep func(x ssa.Value) bool
	dep = func(x ssa.Value) bool {
		if seen[x] {
			return false
		}
		seen[x] = true
		switch y := x.(type) {
		case *ssa.UnOp:
			if f, _, ok := w.curTokenField(y); ok && f == "Comments" {
				return true
			}
			return dep(y.X)
		case *ssa.FieldAddr:
			return dep(y.X)
		case *ssa.IndexAddr:
			return dep(y.X)
		case *ssa.Convert:
			return dep(y.X)
		case *ssa.Phi:
			for _, e := range y.Edges {
				if dep(e) {
					return true
				}
			}
		}
		return false
	}
	return dep(v)
}

// controlDependsOnComments: the instruction defining v is dominated by (or its phi is selected by) a
// test on len(Token.Comments).
func (w *World) controlDependsOnComments(v ssa.Value) bool {
	in, ok := v.(ssa.Instruction)
	if !ok {
		return false
	}
	// the value is merged by a phi one of whose other edges depends on Comments, under an If on len(Comments)
	for _, u := range referrers(v) {
		if p, ok := u.(*ssa.Phi); ok {
			for _, e := range p.Edges {
				if e != v && w.dependsOnComments(e) {
					return true
				}
			}
		}
	}
	for d := in.Block(); d != nil; d = d.Idom() {
		if iff, ok := d.Instrs[len(d.Instrs)-1].(*ssa.If); ok {
			if bo, ok := iff.Cond.(*ssa.BinOp); ok {
				for _, x := range []ssa.Value{bo.X, bo.Y} {
					if c, ok := x.(*ssa.Call); ok && isLenCall(c) && w.dependsOnComments(c.Call.Args[0]) {
						return true
					}
				}
			}
		}
	}
	return false
}

// ruleC12R6: SplitRawStatements and the parser run the same lexer. Every Lexer the module constructs is configured the
// same way: the composite literals of memefish.Lexer set the same fields (today: File only). A mode switch that only the
// splitter turns on ("lenient literals") makes the two disagree about where a token ends — the splitter then cuts
// inside a literal the parser reads as one token.
func ruleC12R6(w *World, r *Report) {
	const rule = "C12/R6"
	r.rule(rule, "every construction of memefish.Lexer in the module sets the same fields (no lexer mode that SplitRawStatements switches on and the parser does not, or the reverse)", 2)
	type site struct {
		fn     *ssa.Function
		pos    token.Pos
		fields []string
	}
	var sites []site
	for _, fn := range w.ModFns {
		if fnPkgPath(fn) != modRoot {
			continue
		}
		for _, b := range fn.Blocks {
			for _, in := range b.Instrs {
				al, ok := in.(*ssa.Alloc)
				if !ok || !isNamed(al.Type(), modRoot, "Lexer") {
					continue
				}
				if fn.Signature.Recv() != nil && w.isLexerPtr(fn.Signature.Recv().Type()) && fn.Name() == "Clone" {
					continue // the copy constructor copies everything
				}
				var fs []string
				for f := range allocFieldStores(al) {
					fs = append(fs, f)
				}
				sort.Strings(fs)
				sites = append(sites, site{fn, al.Pos(), fs})
			}
		}
	}
	if len(sites) < 2 {
		r.errorf("expected the Lexer literals of newParser and SplitRawStatements, found %d", len(sites))
		return
	}
	// the reference configuration: the one the string-taking parser entry points use
	var ref []string
	for _, s := range sites {
		if s.fn.Name() == "newParser" {
			ref = s.fields
		}
	}
	if ref == nil {
		ref = sites[0].fields
	}
	cnt := map[string]int{}
	for _, s := range sites {
		cnt[funcName(s.fn)]++
		construct := fmt.Sprintf("Lexer literal %d in %s", cnt[funcName(s.fn)], funcName(s.fn))
		if strings.Join(s.fields, ",") == strings.Join(ref, ",") {
			r.ok(rule, construct, w.pos(s.pos), "sets "+strings.Join(s.fields, ", ")+" like every other construction")
		} else {
			r.bad(rule, construct, w.pos(s.pos), fmt.Sprintf("sets [%s], the parser's lexer is built with [%s]: the two lexers are configured differently and need not agree on token boundaries", strings.Join(s.fields, ", "), strings.Join(ref, ", ")))
		}
	}
}

// constFlag: v is a boolean built from constants only (a phi of true/false, possibly negated).
func constFlag(v ssa.Value, seen map[ssa.Value]bool) bool {
	if seen[v] {
		return true
	}
	seen[v] = true
	switch x := v.(type) {
	case *ssa.Const:
		_, ok := constBool(x)
		return ok
	case *ssa.Phi:
		for _, e := range x.Edges {
			if !constFlag(e, seen) {
				return false
			}
		}
		return true
	case *ssa.UnOp:
		return x.Op == token.NOT && constFlag(x.X, seen)
	}
	return false
}

// kindFlag: like constFlag, the values may also be kind tests accepted by isTest.
func kindFlag(v ssa.Value, seen map[ssa.Value]bool, isTest func(ssa.Value) bool) bool {
	if seen[v] {
		return true
	}
	seen[v] = true
	if isTest(v) {
		return true
	}
	switch x := v.(type) {
	case *ssa.Const:
		_, ok := constBool(x)
		return ok
	case *ssa.Phi:
		for _, e := range x.Edges {
			if !kindFlag(e, seen, isTest) {
				return false
			}
		}
		return true
	case *ssa.UnOp:
		return x.Op == token.NOT && kindFlag(x.X, seen, isTest)
	}
	return false
}

// pieceConstructor: call is h(…, s, …, a, b) of a function of the module whose body is
// `return &RawStatement{Pos: a, End: b, Statement: s[a:b]}` over its parameters; the fields of that literal in terms of
// the arguments of the call.
func (w *World) pieceConstructor(call *ssa.Call, input ssa.Value) (map[string]ssa.Value, bool) {
	h := call.Call.StaticCallee()
	if h == nil || h.Blocks == nil || fnPkgPath(h) != modRoot || len(h.Blocks) != 1 {
		return nil, false
	}
	argOf := map[ssa.Value]ssa.Value{}
	passesInput := false
	for i, p := range h.Params {
		if i < len(call.Call.Args) {
			argOf[p] = call.Call.Args[i]
			if call.Call.Args[i] == input {
				passesInput = true
			}
		}
	}
	if !passesInput {
		return nil, false
	}
	var lit *ssa.Alloc
	for _, in := range h.Blocks[0].Instrs {
		if al, ok := in.(*ssa.Alloc); ok && isNamed(al.Type(), modRoot, "RawStatement") {
			if lit != nil {
				return nil, false
			}
			lit = al
		}
		if c, ok := in.(*ssa.Call); ok {
			if _, isB := c.Call.Value.(*ssa.Builtin); !isB {
				return nil, false
			}
		}
	}
	if lit == nil {
		return nil, false
	}
	strip := func(v ssa.Value) ssa.Value {
		for {
			switch x := v.(type) {
			case *ssa.Convert:
				v = x.X
			case *ssa.ChangeType:
				v = x.X
			default:
				return v
			}
		}
	}
	fs := allocFieldStores(lit)
	sl, ok := fs["Statement"].(*ssa.Slice)
	if !ok || argOf[sl.X] != input || sl.Low == nil || sl.High == nil {
		return nil, false
	}
	lo, hi := strip(sl.Low), strip(sl.High)
	if fs["Pos"] == nil || fs["End"] == nil || strip(fs["Pos"]) != lo || strip(fs["End"]) != hi || argOf[lo] == nil || argOf[hi] == nil {
		return nil, false
	}
	// in the caller's terms: a synthetic slice cannot be built; Statement is reported through the marker below
	return map[string]ssa.Value{"Pos": argOf[lo], "End": argOf[hi], "Statement": nil, "\x00lo": argOf[lo], "\x00hi": argOf[hi]}, true
}
