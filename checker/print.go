package main

import (
	"go/token"
	"go/types"
	"sort"
	"strings"

	"golang.org/x/tools/go/ssa"
)

// PRINT — a model of each SQL() method extracted from its SSA: the receiver fields it reads
// (directly, or in module functions it hands the receiver to), its string constants, and the
// flattened concatenation sequences of its return value.

type Piece struct {
	kind  string    // "const", "field-sql" (x.F.SQL()), "join", "opt", "stropt", "conv" (string(x.F)), "paren", "quote", "other"
	text  string    // const text; separator for join; left/right for opt (joined by \x00)
	field string    // receiver field involved
	val   ssa.Value // the SSA value of the piece
	guard ssa.Value // condition of the enclosing strOpt, if any
}

type PrintModel struct {
	fn     *ssa.Function
	reads  map[string]bool // receiver fields read
	consts []string        // all string constants in the method (incl. helper arguments)
	seqs   [][]Piece       // alternative flattened concatenations of the result
	opaque bool            // contains a loop or a construct the model does not follow
	joins  []*ssa.Call     // sqlJoin calls
}

func (w *World) PrintModel(ns *NodeStruct) *PrintModel {
	if w.printModels == nil {
		w.printModels = map[string]*PrintModel{}
	}
	if m, ok := w.printModels[ns.Name]; ok {
		return m
	}
	fn := w.nodeMethod(ns, "SQL")
	if fn == nil || fn.Blocks == nil {
		w.printModels[ns.Name] = nil
		return nil
	}
	if fn.Synthetic != "" {
		// the pointer-receiver wrapper of a value-receiver method: model the method itself
		if sel := w.Prog.MethodSets.MethodSet(ns.Named).Lookup(w.Ast.Types, "SQL"); sel != nil {
			if vf := w.Prog.MethodValue(sel); vf != nil && vf.Blocks != nil {
				fn = vf
			}
		}
	}
	m := &PrintModel{fn: fn, reads: map[string]bool{}}
	w.printModels[ns.Name] = m
	// reads: loads of receiver fields here and in module functions that receive the receiver
	seenFn := map[*ssa.Function]bool{}
	var scan func(f *ssa.Function, recv ssa.Value)
	scan = func(f *ssa.Function, recv0 ssa.Value) {
		// a struct-valued receiver is spilled into a local cell
		alias := map[ssa.Value]bool{recv0: true}
		for _, u := range referrers(recv0) {
			if st, ok := u.(*ssa.Store); ok && st.Val == recv0 {
				alias[st.Addr] = true
			}
		}
		for _, b := range f.Blocks {
			for _, in := range b.Instrs {
				recv := recv0
				switch x := in.(type) {
				case *ssa.FieldAddr:
					if alias[x.X] {
						recv = x.X
					}
				}
				switch x := in.(type) {
				case *ssa.FieldAddr:
					if x.X == recv {
						m.reads[fieldAddrName(x)] = true
					}
				case *ssa.Field:
					if x.X == recv {
						if st, ok := x.X.Type().Underlying().(*types.Struct); ok {
							m.reads[st.Field(x.Field).Name()] = true
						}
					}
				case ssa.CallInstruction:
					com := x.Common()
					for ai, a := range com.Args {
						if a != recv {
							continue
						}
						for _, callee := range w.Callees(x) {
							if callee.Blocks == nil || !corePkg(fnPkgPath(callee)) || seenFn[callee] {
								continue
							}
							idx := ai
							if idx < len(callee.Params) {
								seenFn[callee] = true
								scan(callee, callee.Params[idx])
							}
						}
					}
				}
			}
		}
	}
	seenFn[fn] = true
	scan(fn, fn.Params[0])
	// constants
	cs := map[string]bool{}
	for _, b := range fn.Blocks {
		for _, in := range b.Instrs {
			for _, op := range in.Operands(nil) {
				if s, ok := constString(*op); ok && s != "" {
					cs[s] = true
				}
			}
			if call, ok := in.(*ssa.Call); ok {
				if c := call.Call.StaticCallee(); c != nil && (c.Name() == "sqlJoin" || (c.Origin() != nil && c.Origin().Name() == "sqlJoin")) {
					m.joins = append(m.joins, call)
				}
			}
		}
	}
	m.consts = sortedKeys(cs)
	if len(naturalLoops(fn)) > 0 {
		m.opaque = true
	}
	// sequences
	recv := ssa.Value(fn.Params[0])
	for _, b := range fn.Blocks {
		ret, ok := b.Instrs[len(b.Instrs)-1].(*ssa.Return)
		if !ok || len(ret.Results) != 1 {
			continue
		}
		for _, seq := range w.flatten(ret.Results[0], recv, 0) {
			m.seqs = append(m.seqs, seq)
		}
	}
	return m
}

// flatten expands a string-valued SSA value into alternative piece sequences.
func (w *World) flatten(v ssa.Value, recv ssa.Value, depth int) [][]Piece {
	if depth > 40 {
		return [][]Piece{{{kind: "other", val: v}}}
	}
	switch x := v.(type) {
	case *ssa.Const:
		if s, ok := constString(x); ok {
			return [][]Piece{{{kind: "const", text: s, val: v}}}
		}
	case *ssa.BinOp:
		if x.Op == token.ADD {
			ls, rs := w.flatten(x.X, recv, depth+1), w.flatten(x.Y, recv, depth+1)
			var out [][]Piece
			for _, l := range ls {
				for _, r := range rs {
					if len(out) > 64 {
						break
					}
					out = append(out, append(append([]Piece{}, l...), r...))
				}
			}
			return out
		}
	case *ssa.Phi:
		var out [][]Piece
		for _, e := range x.Edges {
			if len(out) > 64 {
				break
			}
			out = append(out, w.flatten(e, recv, depth+1)...)
		}
		return out
	case *ssa.Convert:
		if f, ok := fieldOfRecv(x.X, recv); ok {
			return [][]Piece{{{kind: "conv", field: f, val: v}}}
		}
	case *ssa.ChangeType:
		if f, ok := fieldOfRecv(x.X, recv); ok {
			return [][]Piece{{{kind: "conv", field: f, val: v}}}
		}
	case *ssa.Call:
		com := x.Common()
		name := ""
		if c := com.StaticCallee(); c != nil {
			name = c.Name()
			if o := c.Origin(); o != nil {
				name = o.Name()
			}
		} else if com.IsInvoke() {
			name = com.Method.Name()
		}
		argField := func(i int) string {
			if i < len(com.Args) {
				a := com.Args[i]
				for {
					switch y := a.(type) {
					case *ssa.MakeInterface:
						a = y.X
						continue
					case *ssa.ChangeInterface:
						a = y.X
						continue
					}
					break
				}
				if f, ok := fieldOfRecv(a, recv); ok {
					return f
				}
			}
			return ""
		}
		if pf, ei := w.parenFn(); pf != nil && com.StaticCallee() == pf {
			return [][]Piece{{{kind: "paren", field: argField(ei), val: v}}}
		}
		switch name {
		case "SQL":
			var x0 ssa.Value
			if com.IsInvoke() {
				x0 = com.Value
			} else if len(com.Args) > 0 {
				x0 = com.Args[0]
			}
			if f, ok := fieldOfRecv(x0, recv); ok {
				return [][]Piece{{{kind: "field-sql", field: f, val: v}}}
			}
		case "sqlOpt":
			l, _ := constString(com.Args[0])
			r, _ := constString(com.Args[2])
			return [][]Piece{{{kind: "opt", text: l + "\x00" + r, field: argField(1), val: v}}}
		case "sqlJoin":
			sep, ok := constString(com.Args[1])
			if !ok {
				sep = "\x01" // computed separator
			}
			return [][]Piece{{{kind: "join", text: sep, field: argField(0), val: v}}}
		case "strOpt":
			// the string argument may itself be a concatenation
			inner := w.flatten(com.Args[1], recv, depth+1)
			var out [][]Piece
			out = append(out, []Piece{{kind: "absent", guard: com.Args[0], val: v}}) // not printed
			for _, s := range inner {
				var g []Piece
				for _, p := range s {
					if p.guard == nil {
						p.guard = com.Args[0]
					}
					g = append(g, p)
				}
				out = append(out, g)
			}
			return out
		case "strIfElse":
			return append(w.flatten(com.Args[1], recv, depth+1), w.flatten(com.Args[2], recv, depth+1)...)
		case "QuoteSQLIdent", "QuoteSQLString", "QuoteSQLBytes":
			return [][]Piece{{{kind: "quote", field: argField(0), text: name, val: v}}}
		}
	}
	return [][]Piece{{{kind: "other", val: v}}}
}

// sqlWords tokenises constant SQL text into upper-case words and punctuation marks.
func sqlWords(s string) []string {
	var out []string
	i := 0
	for i < len(s) {
		c := s[i]
		switch {
		case c == ' ' || c == '\n' || c == '\t':
			i++
		case c >= 'A' && c <= 'Z' || c >= 'a' && c <= 'z' || c == '_':
			j := i
			for j < len(s) && (s[j] >= 'A' && s[j] <= 'Z' || s[j] >= 'a' && s[j] <= 'z' || s[j] == '_' || s[j] >= '0' && s[j] <= '9') {
				j++
			}
			out = append(out, strings.ToUpper(s[i:j]))
			i = j
		default:
			// punctuation: longest known operator first
			matched := ""
			for _, op := range refOperators {
				if len(op) > len(matched) && strings.HasPrefix(s[i:], op) {
					matched = op
				}
			}
			if matched == "" {
				matched = string(c)
			}
			out = append(out, matched)
			i += len(matched)
		}
	}
	return out
}

func sortedStrings(m map[string]bool) []string {
	var out []string
	for k := range m {
		out = append(out, k)
	}
	sort.Strings(out)
	return out
}

// seqText renders the constant text of a sequence; non-constant pieces become a marker that splits words.
func seqText(seq []Piece) string {
	var sb strings.Builder
	for _, p := range seq {
		switch p.kind {
		case "const":
			sb.WriteString(p.text)
		case "absent":
		case "opt":
			parts := strings.SplitN(p.text, "\x00", 2)
			sb.WriteString(parts[0])
			sb.WriteString(" \x02 ")
			if len(parts) > 1 {
				sb.WriteString(parts[1])
			}
		case "join":
			sb.WriteString(" \x02 ")
			if p.text != "\x01" {
				sb.WriteString(p.text)
				sb.WriteString(" \x02 ")
			}
		default:
			sb.WriteString("\x02")
		}
	}
	return sb.String()
}

// printedWords: the words/marks of the constant text of a SQL() method, adjacent constants joined.
func (m *PrintModel) printedWords() map[string]bool {
	out := map[string]bool{}
	for _, seq := range m.seqs {
		for _, part := range strings.Split(seqText(seq), "\x02") {
			for _, wd := range sqlWords(part) {
				out[wd] = true
			}
		}
	}
	if m.opaque || len(m.seqs) == 0 {
		for _, c := range m.consts {
			for _, wd := range sqlWords(c) {
				out[wd] = true
			}
		}
	}
	return out
}
