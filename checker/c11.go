package main

import (
	"fmt"
	"os"
	"sort"
	"strings"

	"golang.org/x/tools/go/ssa"
)

func init() {
	register(&propDef{
		ID: "C11",
		Explanation: "R1 end-of-file is not grammar: for every comparison of the current token with <eof> inside a production (entry points, recovery handlers excluded), the token-kind abstract interpreter is run from that branch twice — current token <eof> and current token ';' — with error recovery off; both runs must have the same outcomes before the next consumption (same consumption sites / normal returns, or both only raise). A test that accepts at <eof> what it rejects at ';' makes ParseStatements disagree with ParseStatement on the split pieces. " +
			"R2 position independence (shared with C16/R2): no branch and no non-position field depends on Token.Pos/End/Lexer.pos. " +
			"R3 the list entry points run the single-statement production (C08/R4) in a loop that skips empty statements and stops only at <eof> or after a statement not followed by ';' (loop shape via TKAI). " +
			"Decides: equal treatment of the two statement terminators and shared productions. Does not decide: equality of the trees up to a shift as a theorem.",
		Rules: []ruleFn{ruleC11R1, ruleC16R2, ruleC08R4, ruleC11R3, ruleC14R8, ruleC05R1Only, ruleC11R4, ruleC05R6, ruleC12R6},
	})
}

type eofOutcome struct {
	events []string
}

func (tk *TKAI) outcomesFrom(fn *ssa.Function, b *ssa.BasicBlock, cur KSet) []string {
	ci := &ctxInfo{key: tkCtx{fn: fn, entry: "c11", clean: true}, fn: fn, entry: kTop(), consts: map[int]string{}}
	// start right at the test: refine a fresh state by each outcome of the comparison and explore from
	// the corresponding successor (the instructions of b before the test belong to the previous token)
	iff := b.Instrs[len(b.Instrs)-1].(*ssa.If)
	ev := map[string]bool{}
	for si, succ := range b.Succs {
		st := tk.refine(ci, newTState(cur), iff.Cond, si == 0)
		if st == nil {
			continue
		}
		res := tk.flow(ci, succ, [2]*TState{st, nil}, nil, nil)
		for in := range res.consumedAt {
			ev["consume@"+tk.w.pos(in.Pos())+"#"+in.String()] = true
		}
		for _, rs := range res.ret {
			if !rs.st.consumed {
				ev["return without consuming"] = true
			}
		}
		for _, st := range res.rz {
			if st != nil && !st.consumed {
				ev["raise"] = true
			}
		}
	}
	var out []string
	for e := range ev {
		out = append(out, e)
	}
	sort.Strings(out)
	return out
}

// expandReturns: the event "return without consuming" replaced by what every caller of fn does after the call, with the
// same current token (one level).
func (tk *TKAI) expandReturns(fn *ssa.Function, events []string, cur KSet) ([]string, bool) {
	ev := map[string]bool{}
	expand := false
	allDecided := true
	for _, e := range events {
		if e == "return without consuming" {
			expand = true
			continue
		}
		ev[e] = true
	}
	if expand {
		callers := tk.w.callersOf(fn)
		if len(callers) == 0 {
			ev["return without consuming"] = true
		}
		for _, site := range callers {
			call, ok := site.(*ssa.Call)
			if !ok || call.Parent() == nil || call.Parent().Blocks == nil {
				ev["return without consuming"] = true
				allDecided = false
				continue
			}
			cf := call.Parent()
			ci := &ctxInfo{key: tkCtx{fn: cf, entry: "c11x", clean: true}, fn: cf, entry: kTop(), consts: map[int]string{}}
			res, tail := tk.flowAfter(ci, call, newTState(cur))
			if res == nil {
				ev["return without consuming"] = true
				allDecided = false
				continue
			}
			n := 0
			// what happens in the rest of the call's own block is not in the flow result: every state gone means every
			// path raised there (expect(")") at <eof> or ';'); a block that ends in a return hands the states back
			if len(tail) == 0 {
				ev["raise"] = true
				n++
			} else if _, isRet := call.Block().Instrs[len(call.Block().Instrs)-1].(*ssa.Return); isRet {
				for _, ts := range tail {
					if ts != nil && !ts.consumed {
						ev["return without consuming (from "+funcName(cf)+")"] = true
					}
					n++
				}
			}
			for in := range res.consumedAt {
				ev["consume@"+tk.w.pos(in.Pos())+"#"+in.String()] = true
				n++
			}
			for _, rs := range res.ret {
				if !rs.st.consumed {
					ev["return without consuming (from "+funcName(cf)+")"] = true
				}
				n++
			}
			for _, st := range res.rz {
				if st != nil && !st.consumed {
					ev["raise"] = true
				}
				if st != nil {
					n++
				}
			}
			if n == 0 {
				allDecided = false // nothing is known about what this caller does next
			}
		}
	}
	var out []string
	for e := range ev {
		out = append(out, e)
	}
	sort.Strings(out)
	return out, allDecided
}

func ruleC11R1(w *World, r *Report) {
	const rule = "C11/R1"
	r.rule(rule, "every test of the current token against <eof> inside a production behaves the same for <eof> and for ';' up to the next consumption (same consumption sites and normal returns, or both raise)", 5)
	tk := w.TKAI()
	n := 0
	for _, fn := range w.ModFns {
		if fnPkgPath(fn) != modRoot || !tk.touchesLexer(fn) {
			continue
		}
		if w.isRecoveryHandler(fn) || w.isEntryPoint(fn) {
			continue
		}
		if fn.TypeParams().Len() > 0 && len(fn.TypeArgs()) == 0 {
			continue // the uninstantiated body of a generic function; its instances are analysed
		}
		if fn.Signature.Recv() != nil && w.isLexerPtr(fn.Signature.Recv().Type()) {
			continue // the lexer itself
		}
		if _, restoring := tk.deferredRestore(fn); restoring {
			continue // pure lookahead: rewinds on every exit, accepts nothing
		}
		// the generic statement-list loop is the one place where <eof> and ';' are meant to differ
		if fn.Name() == "SplitRawStatements" {
			continue
		}
		cnt := 0
		for _, b := range fn.Blocks {
			iff, ok := b.Instrs[len(b.Instrs)-1].(*ssa.If)
			if !ok {
				continue
			}
			t, _, ok := tk.tokenTest(nil, iff.Cond)
			if !ok || t.atom != eofAtom || !t.cur {
				continue
			}
			if isStatementListLoop(w, fn) {
				continue
			}
			n++
			cnt++
			construct := fmt.Sprintf("<eof> test %d in %s", cnt, funcName(fn))
			atEOF := tk.outcomesFrom(fn, b, kIn(eofAtom))
			atSemi := tk.outcomesFrom(fn, b, kIn(";"))
			// a raise is an error either way; compare the accepting outcomes
			acc := func(ev []string) []string {
				var out []string
				for _, e := range ev {
					if e != "raise" {
						out = append(out, e)
					}
				}
				return out
			}
			a, s := acc(atEOF), acc(atSemi)
			if strings.Join(a, "|") != strings.Join(s, "|") {
				// a list loop split off into a helper returns at <eof> where it goes on (and fails) at ';': what counts is
				// what the callers do with the return — the same closing token is demanded either way
				aev, okA := tk.expandReturns(fn, atEOF, kIn(eofAtom))
				sev, okS := tk.expandReturns(fn, atSemi, kIn(";"))
				ae, se := acc(aev), acc(sev)
				if !okA || !okS {
					ae, se = []string{"?eof"}, []string{"?semi"} // a caller whose continuation could not be followed: no second chance
				}
				if os.Getenv("C11DEBUG") != "" {
					fmt.Printf("C11DEBUG %s: eof %v -> %v ; semi %v -> %v\n", funcName(fn), atEOF, ae, atSemi, se)
				}
				if strings.Join(ae, "|") == strings.Join(se, "|") {
					a, s = ae, se
				}
			}
			if strings.Join(a, "|") == strings.Join(s, "|") {
				r.ok(rule, construct, w.pos(condPos(iff)), fmt.Sprintf("same outcomes for <eof> and ';': %v", summariseEvents(atEOF)))
			} else {
				r.bad(rule, construct, w.pos(condPos(iff)), fmt.Sprintf("at <eof> the production goes on to %v, at ';' to %v: an input accepted as a whole statement is rejected (or parsed differently) as a piece of a ';'-separated list", summariseEvents(atEOF), summariseEvents(atSemi)))
			}
		}
	}
	r.count("<eof> tests in productions", n)
}

func summariseEvents(ev []string) []string {
	var out []string
	for _, e := range ev {
		if i := strings.Index(e, "#"); i >= 0 {
			e = e[:i]
		}
		out = append(out, e)
	}
	return uniqStrings(out)
}

// isStatementListLoop: the generic parseStatements[T] instances.
func isStatementListLoop(w *World, fn *ssa.Function) bool {
	o := fn.Origin()
	if o == nil {
		o = fn
	}
	// identified by role, not by name: a generic function with a func() T parameter called by the list entry points
	if len(fn.Params) != 2 {
		return false
	}
	for _, e := range w.parseEntryMethods() {
		if !strings.HasSuffix(e.Name(), "s") {
			continue
		}
		for _, c := range w.directParseCallees(e) {
			if c == fn {
				return true
			}
		}
	}
	return false
}

// ruleC11R3: the shape of the statement-list loop through TKAI: it leaves only at <eof> or after a
// statement that is not followed by ';', and an empty statement (';') is skipped without calling the production.
func ruleC11R3(w *World, r *Report) {
	const rule = "C11/R3"
	r.rule(rule, "the statement-list loop calls the production only when the current token is neither ';' nor <eof>, consumes ';' between statements, and returns only when the current token is <eof> or a statement was not followed by ';'", 3)
	tk := w.TKAI()
	n := 0
	for _, fn := range w.ModFns {
		if !isStatementListLoop(w, fn) {
			continue
		}
		n++
		name := funcName(fn)
		res := tk.Intra(fn)
		// (a) the dynamic call of the production happens with kind ∉ {';', <eof>}
		okCall, sawCall := true, false
		for _, b := range fn.Blocks {
			for _, in := range b.Instrs {
				call, ok := in.(*ssa.Call)
				if !ok || call.Call.StaticCallee() != nil {
					continue
				}
				if _, isB := call.Call.Value.(*ssa.Builtin); isB {
					continue
				}
				sawCall = true
				st := tk.StateBefore(in)
				if st == nil || !(st.cur.Excludes(";") && st.cur.Excludes(eofAtom)) {
					okCall = false
				}
			}
		}
		// (b) every normal return has current token <eof>, or follows a production call with kind != ';'
		okRet := true
		retFacts := []string{}
		for _, rs := range res.ret {
			retFacts = append(retFacts, rs.st.cur.String())
			if !(rs.st.cur.Excludes(";")) {
				okRet = false
			}
		}
		construct := "statement list loop " + name
		switch {
		case !sawCall:
			r.undecided(rule, construct, w.pos(fn.Pos()), "no dynamic call of the production found")
		case !okCall:
			r.bad(rule, construct, w.pos(fn.Pos()), "the production is called while the current token may be ';' or <eof>: empty statements are not skipped")
		case !okRet:
			r.bad(rule, construct, w.pos(fn.Pos()), fmt.Sprintf("the loop can return while the current token is ';' (facts at returns: %v): statements after it are dropped", retFacts))
		default:
			r.ok(rule, construct, w.pos(fn.Pos()), fmt.Sprintf("production called under ¬{; <eof>}; returns only with current token %v", uniqSorted(retFacts)))
		}
	}
	if n < 3 {
		r.errorf("expected three instances of the statement-list loop, found %d", n)
	}
}

// ruleC11R4: the parser carries no state from one production to the next. The mutable state of a parse is the byte
// cursor, the current token, the two dot-identifier flags of the lexer, and the error list; each has its own rules
// (C13/R1, C14/R5, C09/R3). Any other field of Parser or Lexer that a method writes is a mode or a counter, and a mode
// that is not left on some return path changes how every later statement of a list — and every later expression of the
// same statement — is read.
func ruleC11R4(w *World, r *Report) {
	const rule = "C11/R4"
	r.rule(rule, "state inventory of Parser and Lexer: every store to a field of *Parser / *Lexer outside the constructors is to Parser.Lexer, Parser.errors, Lexer.pos, Lexer.Token (or a field of it), Lexer.dotIdent or Lexer.lastTokenKind; any other field that is written must be an integer counter that is changed only by constant steps and whose net change is zero on every path from the entry of the writing function to each of its returns (a mode that is entered is left again)", 1)
	known := map[string]bool{"Parser.Lexer": true, "Parser.errors": true, "Lexer.pos": true, "Lexer.Token": true, "Lexer.dotIdent": true, "Lexer.lastTokenKind": true, "Lexer.File": true}
	type fkey struct{ owner, field string }
	stores := map[fkey][]*ssa.Store{}
	nknown := 0
	for _, fn := range w.ModFns {
		if fnPkgPath(fn) != modRoot || fn.Blocks == nil {
			continue
		}
		for _, b := range fn.Blocks {
			for _, in := range b.Instrs {
				st, ok := in.(*ssa.Store)
				if !ok {
					continue
				}
				fa, ok := st.Addr.(*ssa.FieldAddr)
				if !ok {
					continue
				}
				owner := ""
				switch {
				case w.isParserPtr(fa.X.Type()):
					owner = "Parser"
				case w.isLexerPtr(fa.X.Type()):
					owner = "Lexer"
				default:
					continue
				}
				// stores into a value that was just allocated (a literal, Clone's copy) build a new Parser/Lexer
				if _, isAlloc := fa.X.(*ssa.Alloc); isAlloc {
					continue
				}
				k := owner + "." + fieldAddrName(fa)
				if known[k] {
					nknown++
					continue
				}
				stores[fkey{owner, fieldAddrName(fa)}] = append(stores[fkey{owner, fieldAddrName(fa)}], st)
			}
		}
	}
	r.count("stores to the known state fields", nknown)
	if nknown < 20 {
		r.errorf("only %d stores to the known state fields of Parser/Lexer found", nknown)
	}
	r.ok(rule, "known state fields", "-", fmt.Sprintf("%d stores to Parser.Lexer/errors, Lexer.pos/Token/dotIdent/lastTokenKind", nknown))
	var keys []fkey
	for k := range stores {
		keys = append(keys, k)
	}
	sort.Slice(keys, func(i, j int) bool { return keys[i].owner+keys[i].field < keys[j].owner+keys[j].field })
	w.NoReturn()
	// a field of the lexer that only carries something about the previous token over to the next call of nextToken (the
	// role of lastTokenKind, under any name and in any form — the kind itself, or what a pure predicate says about it): every
	// store is in the entry block of nextToken, before the token is reset, of a value computed from Token.Kind alone
	nt := w.fn(w.Mem, "(*Lexer).nextToken")
	carriesPrevToken := func(sts []*ssa.Store) bool {
		if nt == nil || len(nt.Blocks) == 0 || len(sts) == 0 {
			return false
		}
		resetIdx := -1
		for i, in := range nt.Blocks[0].Instrs {
			if st, ok := in.(*ssa.Store); ok {
				if fa, ok := st.Addr.(*ssa.FieldAddr); ok && w.isLexerPtr(fa.X.Type()) && fieldAddrName(fa) == "Token" {
					resetIdx = i
					break
				}
			}
		}
		var fromKind func(v ssa.Value, depth int) bool
		fromKind = func(v ssa.Value, depth int) bool {
			if depth > 3 {
				return false
			}
			if c, ok := v.(*ssa.Call); ok {
				callee := c.Call.StaticCallee()
				if callee == nil || fnPkgPath(callee) != modRoot || len(c.Call.Args) != 1 || callee.Signature.Recv() != nil || !isNamed(callee.Params[0].Type(), modRoot+"/token", "TokenKind") {
					return false
				}
				return fromKind(c.Call.Args[0], depth+1)
			}
			ld, ok := isLoad(v)
			if !ok {
				return false
			}
			fa, ok := ld.(*ssa.FieldAddr)
			if !ok || fieldAddrName(fa) != "Kind" {
				return false
			}
			tfa, ok := fa.X.(*ssa.FieldAddr)
			return ok && fieldAddrName(tfa) == "Token" && w.isLexerPtr(tfa.X.Type())
		}
		for _, st := range sts {
			if st.Parent() != nt || st.Block() != nt.Blocks[0] || resetIdx < 0 {
				return false
			}
			before := false
			for i, in := range nt.Blocks[0].Instrs {
				if in == ssa.Instruction(st) {
					before = i < resetIdx
				}
			}
			if !before || !fromKind(st.Val, 0) {
				return false
			}
		}
		return true
	}
	for _, k := range keys {
		construct := fmt.Sprintf("extra state field %s.%s", k.owner, k.field)
		if k.owner == "Lexer" && carriesPrevToken(stores[k]) {
			r.ok(rule, construct, w.pos(stores[k][0].Pos()), "written only at the entry of nextToken from the kind of the token that is being replaced: it says something about the previous token and nothing else")
			continue
		}
		var problems []string
		byFn := map[*ssa.Function][]*ssa.Store{}
		for _, st := range stores[k] {
			byFn[st.Parent()] = append(byFn[st.Parent()], st)
		}
		// deferred closures: `p.depth++; defer func() { p.depth-- }()` — the closure's change is applied at every
		// return of the function that defers it
		deferDelta := map[*ssa.Function]int64{}
		deferred := map[*ssa.Function]bool{}
		for fn := range byFn {
			if fn.Parent() == nil {
				continue
			}
			par := fn.Parent()
			isDeferred := false
			for _, b := range par.Blocks {
				for _, in := range b.Instrs {
					if d, ok := in.(*ssa.Defer); ok {
						if mc, ok := d.Call.Value.(*ssa.MakeClosure); ok && mc.Fn == ssa.Value(fn) && b == par.Blocks[0] {
							isDeferred = true
						}
					}
				}
			}
			if !isDeferred || len(fn.Blocks) != 1 {
				continue
			}
			total := int64(0)
			okAll := true
			for _, st := range byFn[fn] {
				x, c := plusConst(st.Val)
				ld, isL := isLoad(x)
				if !isL {
					okAll = false
					break
				}
				if lfa, isFA := ld.(*ssa.FieldAddr); !isFA || fieldAddrName(lfa) != k.field {
					okAll = false
					break
				}
				total += c
			}
			if okAll {
				deferDelta[par] += total
				deferred[fn] = true
			}
		}
		for fn := range deferDelta {
			if _, ok := byFn[fn]; !ok {
				byFn[fn] = nil
			}
		}
		for fn, sts := range byFn {
			if deferred[fn] {
				continue
			}
			// each store is field = field ± c
			delta := map[*ssa.Store]int64{}
			okShape := true
			for _, st := range sts {
				x, c := plusConst(st.Val)
				ld, isL := isLoad(x)
				if !isL {
					okShape = false
					break
				}
				lfa, isFA := ld.(*ssa.FieldAddr)
				if !isFA || fieldAddrName(lfa) != k.field {
					okShape = false
					break
				}
				delta[st] = c
			}
			if !okShape && fn.Parent() != nil {
				continue // a deferred closure putting a saved value back (recovery): not a mode switch
			}
			if !okShape {
				problems = append(problems, fmt.Sprintf("%s assigns it a value that is not the old value plus a constant (a mode switch whose balance cannot be checked)", funcName(fn)))
				continue
			}
			// net change per path: forward dataflow, ⊤ on disagreement
			const top = int64(1) << 40
			inD := map[*ssa.BasicBlock]int64{}
			seenB := map[*ssa.BasicBlock]bool{fn.Blocks[0]: true}
			work := []*ssa.BasicBlock{fn.Blocks[0]}
			bad := ""
			for len(work) > 0 && bad == "" {
				b := work[0]
				work = work[1:]
				d := inD[b]
				dead := w.deadAt(b)
				alive := true
				for i, in := range b.Instrs {
					if st, ok := in.(*ssa.Store); ok {
						if c, mine := delta[st]; mine && d != top {
							d += c
						}
					}
					if ret, ok := in.(*ssa.Return); ok {
						if d != top {
							d += deferDelta[fn]
						}
						if d != 0 {
							bad = fmt.Sprintf("%s returns at %s with a net change of %+d", funcName(fn), w.pos(lastPos(ret.Block())), d)
							if d == top {
								bad = fmt.Sprintf("%s returns at %s with a net change that differs between the paths leading there", funcName(fn), w.pos(lastPos(ret.Block())))
							}
						}
					}
					if dead >= 0 && i == dead {
						alive = false
						break
					}
				}
				if !alive {
					continue
				}
				for _, s := range b.Succs {
					if !seenB[s] {
						seenB[s] = true
						inD[s] = d
						work = append(work, s)
					} else if inD[s] != d && inD[s] != top {
						inD[s] = top
						work = append(work, s)
					}
				}
			}
			if bad != "" {
				problems = append(problems, bad)
			}
		}
		if len(problems) > 0 {
			r.bad(rule, construct, w.pos(stores[k][0].Pos()), strings.Join(uniqSorted(problems), "; ")+": the mode stays on for whatever is parsed next (the rest of the statement, the following statements of a list)")
		} else {
			r.ok(rule, construct, w.pos(stores[k][0].Pos()), "changed by constant steps, net zero on every return path")
		}
	}
}
