#!/bin/bash
# usage: kq.sh <keeps-id|seeded-id|path.diff> <prop>...  — applies the patch to a scratch copy of /repo and runs the named
# checks with $BIN (default /verif/bin/memecheck; no rebuild): for iterating on a rule.
S=$1; shift
export GOFLAGS=-mod=mod GOPROXY=off GOSUMDB=off GOTOOLCHAIN=local; unset GOWORK
BIN=${BIN:-/verif/bin/memecheck}
P=$S
[ -f /verif/keeps/$S/patch.diff ] && P=/verif/keeps/$S/patch.diff
[ -f /verif/seeded/$S/patch.diff ] && P=/verif/seeded/$S/patch.diff
T=$(mktemp -d /tmp/kq.XXXXXX); trap 'rm -rf "$T"' EXIT
rsync -a --exclude .git /repo/ "$T/repo/"
(cd "$T/repo" && (git apply --whitespace=nowarn "$P" 2>/dev/null || patch -p1 -s < "$P")) || { echo "patch does not apply"; exit 2; }
(cd "$T/repo" && go build ./... ) || { echo "BUILD-FAILED"; exit 3; }
mkdir -p "$T/out"
for prop in "$@"; do
  VERIF_REPO="$T/repo" VERIF_OUT="$T/out" VERIF_DIR=/verif $BIN -prop "$prop" -tier quick > "$T/out/$prop.log" 2>&1; rc=$?
  echo "$S check $prop exit=$rc"; grep -E '^(VIOLATED|UNDECIDED|CHECKER-ERROR)' "$T/out/$prop.log" | sed "s#$T/repo/##g" | cut -c1-${CUT:-500} | head -${HEADN:-6}
done
