#!/usr/bin/env python3
"""Behaviour-preserving changes written by sub-agents (the "keep round"): /verif/keeps/<P>-k<i>/{patch.diff,note.md,meta.json}.

 import <dir>   copies <dir>/Cxx.out/patch<i>.diff + note<i>.md into /verif/keeps/Cxx-k<i>/
 run [id...]    applies each patch to a scratch copy of /repo, builds, runs the repository suite (must pass) and ALL 20
                quick checks; a non-zero exit of a check on a change under which the property holds is a false alarm of
                the machinery.  meta.json records the result per check.  Frozen copy of bin/memecheck; env KEEPR_PAR (default 4);
                KEEPR_NOSUITE=1 skips the suite (iteration)."""
import glob, json, os, re, shutil, subprocess, sys, tempfile, concurrent.futures as cf
ENV = dict(os.environ, GOFLAGS="-mod=mod", GOPROXY="off", GOSUMDB="off", GOTOOLCHAIN="local")
ENV.pop("GOWORK", None)
PROPS = ["C%02d" % i for i in range(1, 21)]
K = "/verif/keeps"
def sh(cmd, cwd=None, env=None):
    return subprocess.run(cmd, shell=True, cwd=cwd, env=env or ENV, capture_output=True, text=True)
def imp(src):
    for d in sorted(glob.glob(src + "/C??.out")):
        p = os.path.basename(d)[:3]
        for f in sorted(glob.glob(d + "/patch*.diff")):
            i = re.search(r"patch(\d+)\.diff", f).group(1)
            dst = "%s/%s-k%s" % (K, p, i)
            os.makedirs(dst, exist_ok=True)
            shutil.copy(f, dst + "/patch.diff")
            n = "%s/note%s.md" % (d, i)
            if os.path.exists(n):
                shutil.copy(n, dst + "/note.md")
            print("imported", dst)
def one(args):
    kid, binary = args
    d = "%s/%s" % (K, kid)
    t = tempfile.mkdtemp(prefix="keepr.", dir="/tmp")
    meta = {"id": kid, "written_for": kid[:3]}
    try:
        sh("rsync -a --exclude .git /repo/ %s/repo/" % t)
        r = sh("git apply --whitespace=nowarn %s/patch.diff || patch -p1 -s < %s/patch.diff" % (d, d), cwd=t + "/repo")
        if r.returncode != 0:
            meta["status"] = "PATCH-FAILED"; return meta
        if sh("go build ./...", cwd=t + "/repo").returncode != 0:
            meta["status"] = "BUILD-FAILED"; return meta
        if not os.environ.get("KEEPR_NOSUITE"):
            r = sh("timeout 400 go test -vet=off -count=1 -timeout 300s ./...", cwd=t + "/repo")
            meta["suite_rc"] = r.returncode
        os.makedirs(t + "/out")
        env = dict(ENV, VERIF_REPO=t + "/repo", VERIF_OUT=t + "/out", VERIF_DIR="/verif")
        res = {}
        only = [x for x in os.environ.get("ONLY_PROPS", "").split(",") if x]
        if only:
            # a re-run of some checks only (their rules changed): the other results are kept from the last full run
            old = json.load(open(d + "/meta.json"))
            res = dict(old.get("checks") or {})
            if "suite_rc" in old:
                meta["suite_rc"] = old["suite_rc"]
        for p in (only or PROPS):
            r = sh("%s -prop %s -tier quick" % (binary, p), env=env)
            lines = [l.replace(t + "/repo/", "")[:600] for l in re.findall(r"^(?:VIOLATED|UNDECIDED|CHECKER-ERROR).*$", r.stdout, re.M)]
            res[p] = {"exit": r.returncode}
            if r.returncode != 0:
                res[p]["reports"] = lines[:6]
        meta["checks"] = res
        meta["alarms"] = sorted(p for p, v in res.items() if v["exit"] != 0)
        meta["status"] = "silent" if not meta["alarms"] else "ALARM"
        return meta
    finally:
        shutil.rmtree(t, ignore_errors=True)
def run(ids):
    all_ids = sorted(os.path.basename(p) for p in glob.glob(K + "/C??-k*"))
    ids = [i for i in all_ids if not ids or any(a in i for a in ids)]
    frozen = tempfile.mkdtemp(prefix="keeprbin.", dir="/tmp")
    shutil.copy("/verif/bin/memecheck", frozen + "/memecheck")
    bad = 0
    try:
        with cf.ThreadPoolExecutor(max_workers=int(os.environ.get("KEEPR_PAR", "4"))) as ex:
            for meta in ex.map(one, [(i, frozen + "/memecheck") for i in ids]):
                mp = "%s/%s/meta.json" % (K, meta["id"])
                old = json.load(open(mp)) if os.path.exists(mp) else {}
                for k in ("verdict", "title", "first_pass"):
                    if k in old:
                        meta[k] = old[k]
                if "suite_rc" not in meta and "suite_rc" in old:
                    meta["suite_rc"] = old["suite_rc"]
                json.dump(meta, open(mp, "w"), indent=1, sort_keys=True)
                line = "%-8s %-12s suite=%s" % (meta["id"], meta["status"], meta.get("suite_rc", "-"))
                if meta.get("alarms"):
                    bad += 1
                    for p in meta["alarms"]:
                        line += "\n      %s: %s" % (p, (meta["checks"][p].get("reports") or ["(no report line)"])[0][:330])
                print(line, flush=True)
    finally:
        shutil.rmtree(frozen, ignore_errors=True)
    print("keeps: %d  with alarms: %d" % (len(ids), bad))
if sys.argv[1] == "import":
    imp(sys.argv[2])
else:
    run(sys.argv[2:])
