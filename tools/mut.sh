#!/bin/sh
# usage: mut.sh <patch-file|-> <prop> [prop...]  — applies a patch (or stdin) to a scratch copy of /repo and runs checks on it.
# The scratch copy lives under $TMPDIR (default /tmp) only for the duration of the run.
set -u
P="$1"; shift
T=$(mktemp -d "${TMPDIR:-/tmp}/mut.XXXXXX")
trap 'rm -rf "$T"' EXIT
rsync -a --exclude .git /repo/ "$T/repo/"
if [ "$P" = "-" ]; then cat > "$T/p.diff"; P="$T/p.diff"; fi
(cd "$T/repo" && patch -p1 -s < "$P") || { echo "PATCH-FAILED"; exit 3; }
(cd "$T/repo" && GOFLAGS=-mod=mod GOPROXY=off go build ./... ) || { echo "BUILD-FAILED"; exit 3; }
mkdir -p "$T/out"
for prop in "$@"; do
  VERIF_REPO="$T/repo" VERIF_OUT="$T/out" /verif/run.sh "$prop" quick > "$T/out/$prop.log" 2>&1
  rc=$?
  echo "== $prop exit=$rc violations=$(grep -c '^VIOLATION' "$T/out/$prop.log")"
  grep -E '^(VIOLATED|UNDECIDED|CHECKER-ERROR)' "$T/out/$prop.log" | sed "s#$T/repo/##g" | cut -c1-400 | head -${MUT_LINES:-6}
done
