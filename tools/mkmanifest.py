#!/usr/bin/env python3
"""Regenerates /verif/MANIFEST.json from the table below (kept by hand) and validates it."""
import json, os, subprocess, sys
D = os.path.dirname(os.path.dirname(os.path.abspath(__file__)))

# property -> (technique, level text, level note, design ref)
CLAIMED = {
 "C17": ("custom lint over the type-checked syntax tree (go/types field classification vs. generated switch) + SSA shape check of the engine",
         "Decides structurally, for all 264 node structs, that the generated traversal table pushes exactly the node-typed fields in reverse declaration order under their own names, and that the 25-line engine has the pop/push/prune shape; this is the table the behaviour is driven by, so a wrong or missing entry is caught for every node type, including those no test traverses.",
         "Trusted: go/packages+go/types view of the tree; the Go semantics of append/slices. Not decided: the dynamic 'exactly once' theorem beyond the shape of walkMain.", "DESIGN.md §2 C17"),
 "C19": ("translation validation by syntax-tree comparison: checker's own POSLANG parser + translator vs. committed pos.go / walk_internal.go",
         "For each of the 264 node structs the documented pos/end expression is parsed with an independent parser, type-checked against the struct and compared with the body of the committed Pos()/End(); walk table against go/types; generator emitter/interpreter sibling agreement by shape.",
         "Trusted: the checker's POSLANG parser/translator (written from the documented EBNF). Not decided: byte-for-byte generator output (would mean running repository code), run-time agreement of the reflective interpreter.", "DESIGN.md §2 C19"),
}
NOT_APPLICABLE = {
 "C20": "Arithmetic over the lazily built line table (prefix sums, reverse search, slice bounds): needs relational numeric invariants between pos, len(Buffer) and the table contents; no numeric abstract domain is available in this sandbox and a solver is a different technique family. The structural facts in reach are too weak to count as deciding it.",
}
PENDING_REASON = "check not built yet in this round (see DESIGN.md build order); not claimed until its rules run clean"

def main():
    props = [json.loads(l) for l in open(os.path.join(D, "properties.jsonl"))]
    checks, na = [], []
    for p in props:
        pid = p["id"]
        if pid in CLAIMED:
            tech, text, note, ref = CLAIMED[pid]
            checks.append({
                "property_id": pid,
                "quick_cmd": f"./run.sh {pid} quick",
                "thorough_cmd": f"./run.sh {pid} thorough",
                "evidence_file": f"evidence/{pid}.json",
                "replay_cmd_template": "cat {path}",
                "engine": "memecheck",
                "level_claimed": {"category": "other", "text": text, "design_ref": ref},
                "level_note": note,
                "technique": "static analysis: " + tech,
            })
        else:
            na.append({"property_id": pid, "reason": NOT_APPLICABLE.get(pid, PENDING_REASON)})
    base = json.load(open("/root/.vp/BASELINE.json"))
    m = {
        "version": 1,
        "setup_cmd": "cd checker && GOFLAGS=-mod=mod GOPROXY=off GOSUMDB=off GOTOOLCHAIN=local go build -o ../bin/memecheck .",
        "hooks": {
            "guard": "verif",
            "enable": "none needed: the checks only read /repo's sources (go/packages, go/types, go/ssa); nothing is instrumented",
            "baseline_off_cmd": base["cmd"],
            "source_commits": [],
            "add_only": True,
        },
        "engines": [{
            "name": "memecheck", "path": "checker/",
            "serves_properties": sorted(CLAIMED),
            "kind_free_text": "repository-specific static analyser (Go, x/tools v0.29.0): go/packages load, go/types, go/ssa with generics instantiated, VTA call graph; rules per property, obligations keyed by rule+construct",
        }],
        "checks": checks,
        "not_applicable": na,
        "notes": "All claims are at level 'other': each check decides structural necessary conditions of a behavioural property from the source (see DESIGN.md per property: decides / does not decide). Known genuine defects are listed in known_findings.json and printed as KNOWN-FINDING.",
    }
    out = os.path.join(D, "MANIFEST.json")
    json.dump(m, open(out, "w"), indent=1)
    open(out, "a").write("\n")
    try:
        import jsonschema
        jsonschema.validate(m, json.load(open("/root/.vp/MANIFEST.schema.json")))
        print("MANIFEST.json valid;", len(checks), "checks,", len(na), "not applicable")
    except ImportError:
        print("jsonschema not importable; skipped validation")

if __name__ == "__main__":
    main()
