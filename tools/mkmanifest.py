#!/usr/bin/env python3
"""Regenerates /verif/MANIFEST.json from the table below (kept by hand) and validates it."""
import json, os, subprocess, sys
D = os.path.dirname(os.path.dirname(os.path.abspath(__file__)))

# property -> (technique, level text, level note, design ref)
CLAIMED = {
 "C01": ("per-node-type agreement of printer and parser on finite things: PRINT model of each SQL() from SSA (constants, joined pieces, guards) vs. production vocabulary / required tokens / list separators from the parser's SSA and TKAI",
         "Decides necessary conditions of the round trip for all node types: printed words are consumed by the productions, required tokens are printed, list separators agree with what the list loops consume, commas next to possibly empty lists are guarded, an operator cannot glue with the first character of its operand, the fields are printed in the order the productions parse them, a node rebuilt from another carries every field over, literal values survive quoting (C15/R1).",
         "Trusted: PRINT model extraction (methods with loops are used with their constants only), VALUE/TKAI/POSFLOW. Not decided: nested interactions, equality of the two trees.", "DESIGN.md §2 C01"),
 "C02": ("information-sink analysis: fields into which the parser can store information (VALUE) vs. fields SQL() reads (PRINT); region analysis of optional-token guards; correlation of optional position flags with printed fields",
         "Decides that every field that can carry information is read by its type's SQL(), that optional tokens skipped without a trace are documented noise words, that optional-position flags are read or implied by a printed field (one context per assignment of the flag), that a node rebuilt from another of its type copies every field, and that fields are printed in parse order.",
         "Trusted: VALUE, PRINT, POSFLOW event order. Not decided: survival of literal values (C15).", "DESIGN.md §2 C02"),
 "C05": ("abstract evaluation of the documented pos/end expressions per allocation site over abstract positions (token start/end + TKAI token facts, InvalidPos, child Pos/End with VALUE types); parse-event ordering by CFG reachability",
         "Decides, for all ~300 allocation sites of 264 node types: every position field assigned, pos/end chains total, pos is a token start and end a token end with offsets equal to the token length fixed by the guards on the path, sibling parse order equals declaration order, and (nesting) the pos anchor is the first parse event and the end chain is in reverse parse order and complete.",
         "Trusted: TKAI facts, VALUE shapes, the C19 equality between specifications and pos.go. Not decided: numeric range of positions, Bad* ranges (C10).", "DESIGN.md §2 C05"),
 "C06": ("same abstract position evaluation as C05 plus event-order rules on the pos/end chains (first event, reverse parse order, completeness)",
         "Decides the code-shape conditions of exact ranges: the offset added to an anchor is the length of its token, the pos anchor is the first event of the production, end-chain alternatives are in reverse parse order and nothing present is parsed after the chain's fields.",
         "Trusted: as C05. Not decided: the run-time experiments (a)/(b) of the property themselves.", "DESIGN.md §2 C06"),
 "C10": ("sibling cross-check of the four recovery handlers on SSA (dominance, single advance per cycle, value identity of the captured triple); purity check of the strict side of every noPanic branch",
         "Decides that each handler records exactly the tokens it skips (start, last End, clones) with one advance per cycle and nothing fetched after the loop, that both lexer modes execute the same instructions on clean text, that Bad nodes do not alias the live token, and that BadNode.SQL separates tokens by both trivia fields.",
         "Trusted: go/ssa dominators, natural-loop construction. Not decided: which tokens ought to be skipped (nesting counters), the '>>' split in handleParseTypeError.", "DESIGN.md §2 C10"),
 "C12": ("shape rules over the SSA of SplitRawStatements: use-set of the input string, condition classification, value identity of slice bounds and Pos/End, TKAI fact at each piece cut",
         "Decides that the splitter delegates all lexical knowledge to the lexer, propagates lexical errors, cuts pieces only at ';'/<eof> tokens with Statement == input[Pos:End] by value identity, that piece starts account for leading comments; and on the lexer side that a ';' inside a raw literal after a backslash is not a cut (C14/R7) and that comment scanning is exhaustive (C14/R8).",
         "Trusted: go/ssa; the lexer properties C13/C14. The ordering / range arithmetic of the pieces and the two slices of split.go are decided by C12/R5 (LEXBOUNDS over the contract of Lexer.NextToken). Not decided: that no piece contains a top-level semicolon beyond the cut rule (a token-sequence fact).", "DESIGN.md §2 C12"),
 "C13": ("who-may-write analysis of the cursor and token fields + relational numeric abstract interpretation of nextToken (LEXBOUNDS: linear equalities over cursor snapshots and ghost fields for the stored Space/Raw/Pos/End)",
         "Decides the tiling argument: the cursor moves only in skip/skipN; every Space and Raw stored is a slice of the input; each Space begins where the previous comment/token ended and ends where Raw begins; Pos and End are the bounds of Raw; on every return the cursor is at the last End and Pos, End, Space, Raw are stored (Space/Raw not for a <bad> token); <eof> is a fixed point, every other return advanced.",
         "Trusted: go/ssa; callees of nextToken are summarised as 'move the cursor forward' (their bounds are C03/R6). Not decided: that Space holds only whitespace and Raw exactly one token (C14).", "DESIGN.md §2 C13"),
 "C04": ("field-based value-flow (shape) analysis of the parser over go/ssa + per-allocation-site abstract evaluation of the consumer methods; residual-set dataflow for switch exhaustiveness",
         "Decides for every allocation site of every node type that SQL/Pos/End never dereference a field that may be nil at that site (helpers summarised, branches on site-constant fields pruned), that every type/constant switch whose fall-through panics covers what can flow to it, and that every index/slice of the consumers is within bounds (relational numeric abstract interpretation of package ast).",
         "Trusted: go/ssa, VTA; the TKAI summaries used to refine nil returns of tryParse* helpers; no assumptions (peekDelimiter's byte guard is decided by the byte-fact interpretation, C03/R9). Not decided: trees built by hand by users.", "DESIGN.md §2 C04"),
 "C07": ("extraction of the operator table from the parser's SSA with the token-kind abstract interpreter; comparison with a reference table; the printer's exprPrec/paren read by partial evaluation (an interpreter of their SSA over every node type and operator constant) and checked for order-isomorphism",
         "The property is about a finite table and is decided exactly: levels, token→operator constants, associativity, operand parsers, printer precedence ranks and ParenExpr preservation, for all operators.",
         "Trusted: the GoogleSQL reference table typed into the checker; TKAI guard extraction.", "DESIGN.md §2 C07"),
 "C08": ("token-kind abstract interpretation (forward dataflow over SSA, interprocedural summaries = FIRST/pass sets) + contradiction rules",
         "Decides contradictions between a guard and what it guards at all ~1400 call sites of parse functions, producibility of every kind constant / pseudo-keyword (828 uses), inclusion of each statement production's first-token set in its routing guard, shared productions between entry points, and that no start token of a production is rejected by the dispatch in front of it (327 functions).",
         "Trusted: TKAI transfer functions (recovery handlers modelled as re-entry at the clone point). Not decided: acceptance of every sentence of the reference grammar.", "DESIGN.md §2 C08"),
 "C11": ("token-kind abstract interpretation run twice per <eof> test (<eof> vs ';') with recovery off and outcome comparison; taint analysis; call-graph rule",
         "Decides equal treatment of the two statement terminators in every production, the shape of the statement-list loop, shared productions, and position independence of the parser.",
         "Trusted: TKAI. Not decided: equality of trees up to a shift as a theorem.", "DESIGN.md §2 C11"),
 "C16": ("forward taint analysis over go/ssa (interprocedural, field-sensitive on locals) + def-use rules on token spellings + who-may-call rule on the Lexer's byte-level methods + partial evaluation of skipSpaces over the ASCII domain",
         "Decides that no branch of the parser and no non-position AST field depends on whitespace, comments or offsets, and that spellings are compared only through char.EqualFold; reserved words go through char.ToUpper (C14); comment scanning is exhaustive and in range (C14/R8); outside the Lexer only token-producing methods of it are called and no branch depends on File.Buffer (R5); skipSpaces skips exactly the six ASCII white-space bytes (R4, by interpretation over all 128 bytes).",
         "Trusted: go/ssa def-use, VTA. Not decided: the rest of the lexer side (re-spacing never changes token boundaries).", "DESIGN.md §2 C16"),
 "C03": ("interprocedural may-escape analysis of *Error panics over go/ssa + VTA call graph (dominance of recovering defers, flag specialisation); value-flow check of every recover() use; loop-progress analysis over token-kind states; relational numeric abstract interpretation (unit-coefficient linear inequalities, context-sensitive by inlining, both noPanic modes) of the byte-level code",
         "Decides for every exported entry point that no syntax-error panic can escape, that every recover() value is re-panicked unless it is a *Error and recorded when it is, the dynamic types of the error results, progress of all 94 loops, and — for lexer.go, token/quote.go and char/ — that every index, slice, cursor assignment and error position is within bounds in every calling context (132 sites).",
         "Trusted: go/ssa, VTA call graph resolution, standard-library callees treated as non-raising, the contract of File.Position (positions <= len(Buffer)) and of utf8.DecodeRuneInString/EncodeRune, mathematical integers. Not decided: the line-table arithmetic of token/file.go (contents of slices), recursion depth (a 10 M-deep unary chain overflows the stack), quadratic time on deeply nested unclosed brackets.", "DESIGN.md §2 C03"),
 "C09": ("must-pass-through / dominance analysis on the SSA control-flow graph + who-may-write and call-graph reachability rules",
         "Decides the control-flow contract between Parser.errors, Bad nodes and the nil error for every entry point, every Bad* allocation site, every store to the error list and every Clone()/restore lookahead region.",
         "Trusted: go/ssa CFG and dominators, VTA call graph. The range 0 <= Pos <= End <= len(input) of the lexer's error positions is decided by the LEXBOUNDS run (C09/R5 with C03/R6). Not decided: one-error-per-Bad-node counting beyond 'each handler appends'.", "DESIGN.md §2 C09"),
 "C14": ("finite tables read out of the syntax tree / SSA on every run and compared with reference tables from the GoogleSQL lexical specification; partial evaluation (an interpreter of the SSA, incl. the package initialisers) of the keyword tables, the keyword classifiers and the byte classifiers over their finite domains; byte-set dataflow and byte facts for operator starts and parameter names",
         "Decides table agreement: reserved keywords, escape decode table incl. digit counts and code-point bounds, operator recognition (matched bytes = kind spelling = bytes skipped), comment openers, dot-identifier trigger set, character classes over all 256 bytes; the field-token reader, the raw-literal arm and IsKeyword have their shape; the comment terminator search is exhaustive (unit steps, gives up only where the terminator no longer fits, in-range accesses: LEXBOUNDS).",
         "Trusted: the reference tables typed into the checker from the documentation. Not decided: the number automaton, prefix x quote matrix, rejection of exactly the invalid inputs.", "DESIGN.md §2 C14"),
 "C15": ("encode/decode table inverse check between token/quote.go and the lexer's escape table; dominance check of raw writes on SSA; resolved-callee agreement of identifier predicates",
         "Decides that everything the quoting functions can emit is decoded by the lexer to the value it was emitted for, that raw writes happen only after the escaper declined, that no lossy rune iteration feeds the output, that the identifier-quoting predicate uses the lexer's classifiers, and that the quoting helpers never index outside their operand (LEXBOUNDS).",
         "Trusted: specification decode table (checked against the lexer by C14/R2, which this check re-runs). Not decided: unicode.IsPrint over the full rune range.", "DESIGN.md §2 C15"),
 "C18": ("effect analysis over go/ssa: stores/escapes of addresses and references derived from package-level variables (interprocedural), import whitelist, concurrency/map-order instructions, type-graph reachability",
         "Decides that outside package initialisers nothing writes to or lets escape package-level state, that there is no ambient input or scheduling/map-order dependence, that no AST node can alias parser/lexer/file state, and that no address-valued operand (pointer, map, func) is formatted into a message or an SQL text.",
         "Trusted: purity of the whitelisted standard-library functions; no unsafe/cgo (checked by the import rule).", "DESIGN.md §2 C18"),
 "C17": ("custom lint over the type-checked syntax tree (go/types field classification vs. generated switch) + SSA shape check of the engine",
         "Decides structurally, for all 264 node structs, that the generated traversal table pushes exactly the node-typed fields in reverse declaration order under their own names, that the 25-line engine has the pop/push/prune shape (helpers followed), that no size limit cuts the traversal, and that the callback Preorder hands to Inspect — explored as a finite state machine over its captured flags — never calls yield again after it returned false; this is the table the behaviour is driven by, so a wrong or missing entry is caught for every node type, including those no test traverses.",
         "Trusted: go/packages+go/types view of the tree; the Go semantics of append/slices. Not decided: the dynamic 'exactly once' theorem beyond the shape of walkMain.", "DESIGN.md §2 C17"),
 "C20": ("value-identity (dataflow) rules over the SSA of token/file.go and error.go: which value reaches which field / format operand / slice bound",
         "Decides the wiring the property rests on: Position.Line/Column are ResolvePos(pos), EndLine/EndColumn ResolvePos(end); the message prefix is path:Line+1:Column+1 of the error's own Position; ResolvePos returns column = pos - lines[line] for the line it returns, chosen by lines[line] <= pos scanning from the last entry down; the line table starts with 0 and grows by len(part)+1 over strings.Split(Buffer, \"\\n\"); every excerpt line is Buffer[lines[l]:lines[l+1]-1] for l from the resolved line to the resolved end line, numbered l+1.",
         "Trusted: go/ssa. Not decided: that File.Position never panics for 0 <= pos <= end <= len and the arithmetic theorem 'line = number of newline bytes before pos' — both need invariants about the contents of File.lines (sorted, last entry len+1), which no analysis built here expresses; the binary search the source's TODO asks for (sort.Search over the table) is accepted by its library contract; other search schemes are reported as undecided.", "DESIGN.md §2 C20"),
 "C19": ("translation validation by syntax-tree comparison: checker's own POSLANG parser + translator vs. committed pos.go / walk_internal.go",
         "For each of the 264 node structs the documented pos/end expression is parsed with an independent parser, type-checked against the struct and compared with the body of the committed Pos()/End(); walk table against go/types; generator emitter/interpreter sibling agreement by shape; each interpreter method computes the same function as the helper its emitter names (abstract execution over the finite partition of operand values their comparisons distinguish); helper synonyms and delegating helpers are compared by their contract tables; the first-match helpers are evaluated over every pattern of up to eight alternatives.",
         "Trusted: the checker's POSLANG parser/translator (written from the documented EBNF). Not decided: byte-for-byte generator output (would mean running repository code), the reflective Var.Eval* methods.", "DESIGN.md §2 C19"),
}
NOT_APPLICABLE = {
}
PENDING_REASON = "check not built yet in this round (see DESIGN.md build order); not claimed until its rules run clean"

def main():
    props = [json.loads(l) for l in open(os.path.join(D, "properties.jsonl"))]
    checks, na = [], []
    for p in props:
        pid = p["id"]
        if pid in CLAIMED:
            tech, text, note, ref = CLAIMED[pid]
            checks.append({
                "property_id": pid,
                "quick_cmd": f"./run.sh {pid} quick",
                "thorough_cmd": f"./run.sh {pid} thorough",
                "evidence_file": f"evidence/{pid}.json",
                "replay_cmd_template": "cat {path}",
                "engine": "memecheck",
                "level_claimed": {"category": "other", "text": text, "design_ref": ref},
                "level_note": note,
                "technique": "static analysis: " + tech,
            })
        else:
            na.append({"property_id": pid, "reason": NOT_APPLICABLE.get(pid, PENDING_REASON)})
    base = json.load(open("/root/.vp/BASELINE.json"))
    m = {
        "version": 1,
        "setup_cmd": "cd checker && GOFLAGS=-mod=mod GOPROXY=off GOSUMDB=off GOTOOLCHAIN=local go build -o ../bin/memecheck .",
        "hooks": {
            "guard": "verif",
            "enable": "none needed: the checks only read /repo's sources (go/packages, go/types, go/ssa); nothing is instrumented",
            "baseline_off_cmd": base["cmd"],
            "source_commits": [],
            "add_only": True,
        },
        "engines": [{
            "name": "memecheck", "path": "checker/",
            "serves_properties": sorted(CLAIMED),
            "kind_free_text": "repository-specific static analyser (Go, x/tools v0.29.0): go/packages load, go/types, go/ssa with generics instantiated, VTA call graph; rules per property, obligations keyed by rule+construct",
        }],
        "checks": checks,
        "not_applicable": na,
        "notes": "All claims are at level 'other' (static analysis only; where a table is finite it is obtained by interpreting the SSA over its whole domain — nothing of the repository is run): each check decides structural necessary conditions of a behavioural property from the source (see DESIGN.md per property: decides / does not decide). Known genuine defects are listed in known_findings.json and printed as KNOWN-FINDING.",
    }
    out = os.path.join(D, "MANIFEST.json")
    json.dump(m, open(out, "w"), indent=1)
    open(out, "a").write("\n")
    try:
        import jsonschema
        jsonschema.validate(m, json.load(open("/root/.vp/MANIFEST.schema.json")))
        print("MANIFEST.json valid;", len(checks), "checks,", len(na), "not applicable")
    except ImportError:
        print("jsonschema not importable; skipped validation")

if __name__ == "__main__":
    main()
