#!/usr/bin/env python3
"""Runs every check against every confirmed seeded change and writes /verif/seeded/<id>/meta.json.

For each /verif/seeded/<P>-<i>/ (patch.diff, demo_test.go, note.md):
  1. scratch copy of /repo's working tree under $TMPDIR (removed afterwards);
  2. the demonstration test passes on the clean copy;
  3. the patch applies, the tree builds, the repository's own suite still passes;
  4. the demonstration test fails on the changed copy;
  5. all 19 checks (quick tier) run on the changed copy, in parallel; the rules that report are recorded.
Usage: seedmatrix.py [id ...]   (default: all)"""
import json, os, re, shutil, subprocess, sys, tempfile, concurrent.futures as cf

ENV = dict(os.environ, GOFLAGS="-mod=mod", GOPROXY="off", GOSUMDB="off", GOTOOLCHAIN="local")
ENV.pop("GOWORK", None)
PROPS = ["C%02d" % i for i in range(1, 21)]
SEEDED = "/verif/seeded"


def sh(cmd, cwd=None, env=None, timeout=None):
    return subprocess.run(cmd, shell=True, cwd=cwd, env=env or ENV, capture_output=True, text=True, timeout=timeout)


def check(prop, repo, out):
    env = dict(ENV, VERIF_REPO=repo, VERIF_OUT=os.path.join(out, prop))
    os.makedirs(env["VERIF_OUT"], exist_ok=True)
    env["VERIF_DIR"] = "/verif"
    r = sh("%s -prop %s -tier quick" % (BIN, prop), env=env, timeout=1500)
    rules = sorted(set(re.findall(r"^(?:VIOLATED|UNDECIDED) (\S+)", r.stdout, re.M)))
    if "CHECKER-ERROR" in r.stdout:
        rules.append("checker-error")
    first = ""
    m = re.search(r"^VIOLATED (.*)$", r.stdout, re.M)
    if m:
        first = m.group(1)[:400].replace(repo + "/", "")
    return prop, r.returncode, rules, first


def one(sid):
    d = os.path.join(SEEDED, sid)
    prop = sid.split("-")[0]
    t = tempfile.mkdtemp(prefix="seedm.", dir=os.environ.get("TMPDIR", "/tmp"))
    try:
        repo = os.path.join(t, "repo")
        sh("rsync -a --exclude .git /repo/ %s/" % repo)
        only = [x for x in os.environ.get("ONLY_PROPS", "").split(",") if x]
        if only:
            # a re-run of some checks only (their rules changed): confirmation and the other columns stay as they are
            meta = json.load(open(os.path.join(d, "meta.json")))
            if sh("patch -p1 -s < %s/patch.diff" % d, cwd=repo).returncode != 0 or sh("go build ./...", cwd=repo).returncode != 0:
                return sid, meta
            det, samples = dict(meta.get("detected_by") or {}), dict(meta.get("first_report") or {})
            for p in only:
                p_, rc, rules, first = check(p, repo, os.path.join(t, "out"))
                det.pop(p, None); samples.pop(p, None)
                if rc != 0:
                    det[p] = rules; samples[p] = first
            meta["detected_by"], meta["first_report"], meta["detected"] = det, samples, bool(det.get(prop))
            json.dump(meta, open(os.path.join(d, "meta.json"), "w"), indent=1, sort_keys=True)
            return sid, meta
        demo = open(os.path.join(d, "demo_test.go")).read()
        name = re.search(r"func (Test\w+)", demo).group(1)
        shutil.copy(os.path.join(d, "demo_test.go"), os.path.join(repo, "zz_seed_demo_test.go"))
        clean = sh("timeout 120 go test -vet=off -count=1 -timeout 60s -run '^%s$' ." % name, cwd=repo).returncode
        os.remove(os.path.join(repo, "zz_seed_demo_test.go"))
        if sh("patch -p1 -s < %s/patch.diff" % d, cwd=repo).returncode != 0:
            return sid, dict(error="patch does not apply")
        if sh("go build ./...", cwd=repo).returncode != 0:
            return sid, dict(error="does not build")
        suite = sh("timeout 400 go test -vet=off -count=1 -timeout 300s ./...", cwd=repo).returncode
        shutil.copy(os.path.join(d, "demo_test.go"), os.path.join(repo, "zz_seed_demo_test.go"))
        mut = sh("timeout 120 go test -vet=off -count=1 -timeout 60s -run '^%s$' ." % name, cwd=repo).returncode
        os.remove(os.path.join(repo, "zz_seed_demo_test.go"))
        det, samples = {}, {}
        with cf.ThreadPoolExecutor(max_workers=6) as ex:
            for p, rc, rules, first in ex.map(lambda p: check(p, repo, os.path.join(t, "out")), PROPS):
                if rc != 0:
                    det[p] = rules
                    samples[p] = first
        note = open(os.path.join(d, "note.md")).read() if os.path.exists(os.path.join(d, "note.md")) else ""
        meta = dict(
            id=sid,
            property=prop,
            source="sub-agent given only the text of the property and a scratch worktree of /repo",
            demonstration=dict(test=name, file="demo_test.go"),
            confirmed=dict(clean_demo_rc=clean, suite_rc_with_change=suite, demo_rc_with_change=mut,
                           ok=(clean == 0 and suite == 0 and mut != 0)),
            what_i_ran=[
                "rsync -a --exclude .git /repo/ $T/repo/  (scratch copy, removed afterwards)",
                "go test -run '^%s$' .   on the clean copy: expected pass" % name,
                "patch -p1 < patch.diff && go build ./... && go test ./...   (existing suite): expected pass",
                "go test -run '^%s$' .   with the change: expected fail" % name,
                "VERIF_REPO=$T/repo bin/memecheck -prop Cxx -tier quick   for all 19 properties (the binary run.sh builds)",
            ],
            detected=bool(det.get(prop)),
            detected_by=det,
            first_report=samples,
            needs_and_effect="see note.md (written by the sub-agent that made the change)",
            note_head=note.strip().split("\n")[0][:300] if note else "",
        )
        json.dump(meta, open(os.path.join(d, "meta.json"), "w"), indent=1, sort_keys=True)
        return sid, meta
    finally:
        shutil.rmtree(t, ignore_errors=True)


BIN = "/verif/bin/memecheck"


def main():
    # a frozen copy of the checker: the sources may be edited (and rebuilt by run.sh) while the matrix runs
    global BIN
    sh("/verif/run.sh C19 quick")
    snap = tempfile.mkdtemp(prefix="seedbin.", dir=os.environ.get("TMPDIR", "/tmp"))
    shutil.copy("/verif/bin/memecheck", os.path.join(snap, "memecheck"))
    BIN = os.path.join(snap, "memecheck")
    try:
        run()
    finally:
        shutil.rmtree(snap, ignore_errors=True)


def run():
    ids = sys.argv[1:] or sorted(x for x in os.listdir(SEEDED) if os.path.isdir(os.path.join(SEEDED, x)) and re.match(r"C\d\d-\d+$", x))
    with cf.ThreadPoolExecutor(max_workers=int(os.environ.get("SEEDM_PAR", "3"))) as ex:
        for sid, meta in ex.map(one, ids):
            if "error" in meta:
                print(sid, "ERROR", meta["error"], flush=True)
                continue
            c = meta["confirmed"]
            print("%s confirmed=%s own=%s all=%s" % (sid, c["ok"], ",".join(meta["detected_by"].get(meta["property"], [])) or "-",
                                                    {k: v for k, v in meta["detected_by"].items()}), flush=True)


if __name__ == "__main__":
    main()
