#!/usr/bin/env python3
"""Writes the result of the keep round into DESIGN.md: the KEEPTABLE block of §3.3 (one line per change) and the KEEPLIMITS
block of §6 (the false alarms that remain), from /verif/keeps/*/meta.json and note.md."""
import glob, json, os, re
K = "/verif/keeps"
first = json.load(open(K + "/FIRSTPASS.json"))["results"]
if os.path.exists(K + "/FIRSTPASS2.json"):
    first.update(json.load(open(K + "/FIRSTPASS2.json"))["results"])
rows, limits = [], []
tot = silent = 0
def knum(d):
    b = os.path.basename(d)
    return (b[:3], int(b.split("-k")[1]))
for d in sorted(glob.glob(K + "/C??-k*"), key=knum):
    kid = os.path.basename(d)
    mp = d + "/meta.json"
    if not os.path.exists(mp):
        continue
    m = json.load(open(mp))
    note = open(d + "/note.md").read() if os.path.exists(d + "/note.md") else ""
    head = re.sub(r"^[#\s*]*", "", note.strip().split("\n")[0])[:140].replace("|", "\\|")
    tot += 1
    fp = first.get(kid, {})
    fps = "—" if not fp else ("silent" if fp.get("status") == "silent" else "alarm: " + ", ".join(r for r in fp.get("rules", []) if r != "CHECKER-ERROR")[:80])
    if m.get("status") == "silent":
        silent += 1
        now = "silent"
    else:
        rules = set()
        for p, v in (m.get("checks") or {}).items():
            for r in v.get("reports", []):
                mm = re.match(r"(?:VIOLATED|UNDECIDED) (\S+)", r)
                if mm:
                    rules.add(mm.group(1))
        now = "**alarm**: " + ", ".join(sorted(rules))
        limits.append("  * `%s` — %s → %s (checks %s)" % (kid, head, ", ".join(sorted(rules)) or "anchor loss", ", ".join(m.get("alarms", []))))
    rows.append("| %s | %s | %s | %s |" % (kid, head, fps, now))
table = ("%d changes under which the property holds (suite green with each): %d silent on all 20 checks, %d still raise an alarm.\n\n"
         "| change | first line of the sub-agent's note | first pass | now |\n|---|---|---|---|\n" % (tot, silent, tot - silent)) + "\n".join(rows)
p = "/verif/DESIGN.md"
s = open(p).read()
if "<!-- KEEPTABLE -->" in s:
    a, b = s.index("<!-- KEEPTABLE -->"), s.index("<!-- /KEEPTABLE -->")
    s = s[:a] + "<!-- KEEPTABLE -->\n" + table + "\n" + s[b:]
if "<!-- KEEPLIMITS -->" in s:
    a, b = s.index("<!-- KEEPLIMITS -->"), s.index("<!-- /KEEPLIMITS -->")
    s = s[:a] + "<!-- KEEPLIMITS -->\n" + "\n".join(limits) + "\n  " + s[b:]
open(p, "w").write(s)
print("keeps %d silent %d alarms %d" % (tot, silent, tot - silent))
