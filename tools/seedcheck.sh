#!/bin/bash
# usage: seedcheck.sh <prop> <i> [extra props to run...]
# Confirms a sub-agent change (/verif/seeded/<prop>-<i>/patch.diff + demo_test.go) in a fresh scratch
# copy of /repo: applies, builds, existing suite passes, demo fails with / passes without the change.
# Then runs the checks of the property (and extra props) on the changed tree.
P=$1; I=$2; shift 2
SRC=/verif/seeded/$P-$I
export GOFLAGS=-mod=mod GOPROXY=off GOSUMDB=off GOTOOLCHAIN=local
T=$(mktemp -d /tmp/seed.XXXXXX); trap 'rm -rf "$T"' EXIT
rsync -a --exclude .git /repo/ "$T/repo/"
cd "$T/repo"
DEMO=$(grep -o 'func Test[A-Za-z0-9_]*' "$SRC/demo_test.go" | head -1 | sed 's/func //')
cp "$SRC/demo_test.go" ./zz_seed_demo_test.go
timeout 120 go test -vet=off -count=1 -timeout 60s -run "^${DEMO}\$" . > "$T/demo_clean.log" 2>&1; RC_CLEAN=$?
rm zz_seed_demo_test.go
if ! patch -p1 -s < "$SRC/patch.diff"; then echo "RESULT $P-$I patch-does-not-apply"; exit 1; fi
go build ./... > "$T/build.log" 2>&1 || { echo "RESULT $P-$I build-fails"; cat "$T/build.log" | head; exit 1; }
timeout 400 go test -vet=off -count=1 -timeout 300s ./... > "$T/suite.log" 2>&1; RC_SUITE=$?
cp "$SRC/demo_test.go" ./zz_seed_demo_test.go
timeout 120 go test -vet=off -count=1 -timeout 60s -run "^${DEMO}\$" . > "$T/demo_mut.log" 2>&1; RC_MUT=$?
rm zz_seed_demo_test.go
echo "RESULT $P-$I demo=$DEMO clean_demo_rc=$RC_CLEAN suite_rc=$RC_SUITE mutated_demo_rc=$RC_MUT"
if [ $RC_CLEAN -ne 0 ]; then tail -5 "$T/demo_clean.log"; fi
if [ $RC_SUITE -ne 0 ]; then grep -E "^(---|FAIL|panic)" "$T/suite.log" | head -5; fi
mkdir -p "$T/out"
for prop in $P "$@"; do
  VERIF_REPO="$T/repo" VERIF_OUT="$T/out" /verif/run.sh "$prop" quick > "$T/out/$prop.log" 2>&1; rc=$?
  echo "  check $prop exit=$rc $(grep -E '^(VIOLATED|UNDECIDED|CHECKER-ERROR)' "$T/out/$prop.log" | sed "s#$T/repo/##g" | cut -c1-260 | head -3 | tr '\n' '|')"
done
