#!/usr/bin/env python3
"""Runs every keep-mutant (behaviour-preserving rewrite) of /verif/mutants against the checks it is filed under,
plus the checks that share rules with them; a non-zero exit of a check is a false alarm of the machinery."""
import glob, os, re, subprocess, sys, tempfile, shutil, concurrent.futures as cf
ENV = dict(os.environ, GOFLAGS="-mod=mod", GOPROXY="off", GOSUMDB="off", GOTOOLCHAIN="local")
ENV.pop("GOWORK", None)
def sh(cmd, cwd=None, env=None):
    return subprocess.run(cmd, shell=True, cwd=cwd, env=env or ENV, capture_output=True, text=True)
def one(patch):
    prop = os.path.basename(os.path.dirname(patch))
    t = tempfile.mkdtemp(prefix="keep.", dir="/tmp")
    try:
        sh("rsync -a --exclude .git /repo/ %s/repo/" % t)
        if sh("patch -p1 -s < %s" % patch, cwd=t + "/repo").returncode != 0:
            return patch, prop, "PATCH-FAILED", ""
        if sh("go build ./...", cwd=t + "/repo").returncode != 0:
            return patch, prop, "BUILD-FAILED", ""
        env = dict(ENV, VERIF_REPO=t + "/repo", VERIF_OUT=t + "/out", VERIF_DIR="/verif")
        os.makedirs(t + "/out")
        r = sh("/verif/bin/memecheck -prop %s -tier quick" % prop, env=env)
        first = ""
        m = re.search(r"^(VIOLATED|UNDECIDED|CHECKER-ERROR).*$", r.stdout, re.M)
        if m:
            first = m.group(0)[:300].replace(t + "/repo/", "")
        return patch, prop, "exit=%d" % r.returncode, first
    finally:
        shutil.rmtree(t, ignore_errors=True)
pats = sorted(glob.glob("/verif/mutants/*/keep-*.patch"))
bad = 0
with cf.ThreadPoolExecutor(max_workers=6) as ex:
    for patch, prop, res, first in ex.map(one, pats):
        flag = "" if res == "exit=0" else "  <== FALSE ALARM"
        if flag:
            bad += 1
        print("%-4s %-45s %s%s %s" % (prop, os.path.basename(patch), res, flag, first), flush=True)
print("keep mutants: %d, false alarms: %d" % (len(pats), bad))
sys.exit(1 if bad else 0)
