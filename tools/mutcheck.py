#!/usr/bin/env python3
"""Runs the hand-written mutants of /verif/mutants (see tools/mutants.py) against the checks.

 break-<id>: applied to a scratch copy of /repo; every check the mutant is filed under must exit 1 (a miss is reported).
 keep-<id> : a behaviour-preserving rewrite; ALL 20 checks must exit 0 on it (a non-zero exit is a false alarm of the machinery).

The result is written to /verif/mutants/RESULTS.json (committed; DESIGN.md §3 quotes it).  A frozen copy of bin/memecheck is
used, so the checker may be rebuilt meanwhile; /repo must not change during the run.
usage: mutcheck.py [--keep-only|--break-only] [id-substring...]        env MUTC_PAR (default 5)"""
import glob, json, os, re, subprocess, sys, tempfile, shutil, concurrent.futures as cf
ENV = dict(os.environ, GOFLAGS="-mod=mod", GOPROXY="off", GOSUMDB="off", GOTOOLCHAIN="local")
ENV.pop("GOWORK", None)
PROPS = ["C%02d" % i for i in range(1, 21)]
def sh(cmd, cwd=None, env=None):
    return subprocess.run(cmd, shell=True, cwd=cwd, env=env or ENV, capture_output=True, text=True)
def one(args):
    mid, kind, props, patch, binary = args
    t = tempfile.mkdtemp(prefix="mutc.", dir="/tmp")
    try:
        sh("rsync -a --exclude .git /repo/ %s/repo/" % t)
        if sh("patch -p1 -s < %s" % patch, cwd=t + "/repo").returncode != 0:
            return mid, kind, {"_": "PATCH-FAILED"}
        if sh("go build ./...", cwd=t + "/repo").returncode != 0:
            return mid, kind, {"_": "BUILD-FAILED"}
        os.makedirs(t + "/out")
        env = dict(ENV, VERIF_REPO=t + "/repo", VERIF_OUT=t + "/out", VERIF_DIR="/verif")
        res = {}
        only = [x for x in os.environ.get("ONLY_PROPS", "").split(",") if x]
        for p in [q for q in (PROPS if kind == "keep" else props) if not only or q in only]:
            r = sh("%s -prop %s -tier quick" % (binary, p), env=env)
            rules = sorted(set(re.findall(r"^(?:VIOLATED|UNDECIDED|CHECKER-ERROR) (\S+)", r.stdout, re.M)))
            res[p] = {"exit": r.returncode, "rules": rules}
        return mid, kind, res
    finally:
        shutil.rmtree(t, ignore_errors=True)
def main():
    args = [a for a in sys.argv[1:] if not a.startswith("--")]
    idx = json.load(open("/verif/mutants/INDEX.json"))
    frozen = tempfile.mkdtemp(prefix="mutcbin.", dir="/tmp")
    shutil.copy("/verif/bin/memecheck", frozen + "/memecheck")
    jobs = []
    for e in idx:
        if "--keep-only" in sys.argv and e["kind"] != "keep": continue
        if "--break-only" in sys.argv and e["kind"] != "break": continue
        if args and not any(a in e["id"] for a in args): continue
        props = e["props"].split(",")
        jobs.append((e["id"], e["kind"], props, "/verif/mutants/%s/%s-%s.patch" % (props[0], e["kind"], e["id"]), frozen + "/memecheck"))
    out, bad = {}, 0
    try:
        with cf.ThreadPoolExecutor(max_workers=int(os.environ.get("MUTC_PAR", "5"))) as ex:
            for mid, kind, res in ex.map(one, jobs):
                if kind == "keep":
                    alarms = {p: v for p, v in res.items() if p == "_" or v["exit"] != 0}
                    verdict = "silent on all %d checks" % len(res) if not alarms else "FALSE ALARM " + json.dumps(alarms)
                    bad += 1 if alarms else 0
                else:
                    missed = [p for p, v in res.items() if p == "_" or v["exit"] != 1]
                    verdict = "reported by " + ", ".join("%s(%s)" % (p, "+".join(v["rules"])) for p, v in res.items() if p != "_" and v["exit"] == 1)
                    if missed:
                        verdict += "  MISSED by " + ",".join(missed); bad += 1
                out[mid] = {"kind": kind, "result": res}
                print("%-5s %-44s %s" % (kind, mid, verdict[:400]), flush=True)
    finally:
        shutil.rmtree(frozen, ignore_errors=True)
    if os.environ.get("ONLY_PROPS"):
        # merge the re-run of some checks into the results of the last full run
        full = json.load(open("/verif/mutants/RESULTS.json"))
        for mid, v in out.items():
            full.setdefault(mid, {"kind": v["kind"], "result": {}})["result"].update(v["result"])
        json.dump(full, open("/verif/mutants/RESULTS.json", "w"), indent=1, sort_keys=True)
    elif not args and "--keep-only" not in sys.argv and "--break-only" not in sys.argv:
        json.dump(out, open("/verif/mutants/RESULTS.json", "w"), indent=1, sort_keys=True)
    print("mutants: %d  not as expected: %d" % (len(jobs), bad))
    sys.exit(1 if bad else 0)
main()
