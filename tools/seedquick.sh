#!/bin/bash
# usage: seedquick.sh <seed-id> <prop>...   — applies /verif/seeded/<seed-id>/patch.diff to a scratch copy of /repo
# and runs only the named checks (no suite, no demo): for iterating on a rule.
S=$1; shift
export GOFLAGS=-mod=mod GOPROXY=off GOSUMDB=off GOTOOLCHAIN=local; unset GOWORK
T=$(mktemp -d /tmp/seedq.XXXXXX); trap 'rm -rf "$T"' EXIT
rsync -a --exclude .git /repo/ "$T/repo/"
(cd "$T/repo" && patch -p1 -s < /verif/seeded/$S/patch.diff) || { echo "patch does not apply"; exit 2; }
mkdir -p "$T/out"
for prop in "$@"; do
  VERIF_REPO="$T/repo" VERIF_OUT="$T/out" /verif/run.sh "$prop" quick > "$T/out/$prop.log" 2>&1; rc=$?
  echo "$S check $prop exit=$rc"; grep -E '^(VIOLATED|UNDECIDED|CHECKER-ERROR)' "$T/out/$prop.log" | sed "s#$T/repo/##g" | cut -c1-${CUT:-400} | head -${HEADN:-4}
done
