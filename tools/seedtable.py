#!/usr/bin/env python3
"""Rewrites the table of DESIGN.md §7 (between the SEEDTABLE markers) from /verif/seeded/*/meta.json."""
import json, os, re
rows = []
tot = own = other = miss = 0
for sid in sorted(os.listdir("/verif/seeded")):
    mp = os.path.join("/verif/seeded", sid, "meta.json")
    if not os.path.exists(mp):
        continue
    m = json.load(open(mp))
    tot += 1
    prop = m["property"]
    det = m.get("detected_by", {})
    mine = ", ".join(det.get(prop, [])) or "—"
    others = "; ".join("%s: %s" % (p, ", ".join(r)) for p, r in sorted(det.items()) if p != prop) or "—"
    if det.get(prop):
        own += 1
    elif det:
        other += 1
    else:
        miss += 1
    note = open(os.path.join("/verif/seeded", sid, "note.md")).read() if os.path.exists(os.path.join("/verif/seeded", sid, "note.md")) else ""
    head = re.sub(r"^[#\s]*", "", note.strip().split("\n")[0])[:150]
    rows.append("| %s | %s | %s | %s |" % (sid, head.replace("|", "\\|"), mine, others))
table = "| seed | change (first line of the sub-agent's note) | reported by the property's own check | reported by other checks |\n|---|---|---|---|\n" + "\n".join(rows)
summary = "%d confirmed changes: %d reported by the check of the property they were written against, %d only by the check of another property, %d by none." % (tot, own, other, miss)
p = "/verif/DESIGN.md"
s = open(p).read()
a, b = s.index("<!-- SEEDTABLE -->"), s.index("<!-- /SEEDTABLE -->")
s = s[:a] + "<!-- SEEDTABLE -->\n" + summary + "\n\n" + table + "\n" + s[b:]
open(p, "w").write(s)
print(summary)
