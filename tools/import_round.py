#!/usr/bin/env python3
"""import_round.py <outroot> <first-index>: copies <outroot>/Cxx.out/{patch,demo,note}<i>.* of a sub-agent round into
/verif/seeded/Cxx-<first-index + i - 1>/ (patch.diff, demo_test.go, note.md). Already imported ones are skipped."""
import os, shutil, sys
root, first = sys.argv[1], int(sys.argv[2])
new = []
for p in ["C%02d" % i for i in range(1, 21)]:
    o = os.path.join(root, p + ".out")
    for i in (1, 2):
        src = [os.path.join(o, f) for f in ("patch%d.diff" % i, "demo%d_test.go" % i, "note%d.md" % i)]
        if not all(os.path.exists(s) and os.path.getsize(s) > 0 for s in src[:2]):
            continue
        d = "/verif/seeded/%s-%d" % (p, first + i - 1)
        if os.path.exists(d):
            continue
        os.makedirs(d)
        shutil.copy(src[0], d + "/patch.diff"); shutil.copy(src[1], d + "/demo_test.go")
        if os.path.exists(src[2]):
            shutil.copy(src[2], d + "/note.md")
        new.append(os.path.basename(d))
    hd = os.path.join(o, "head_defects.md")
    if os.path.exists(hd):
        os.makedirs("/verif/seeded/head_defects_round6", exist_ok=True)
        shutil.copy(hd, "/verif/seeded/head_defects_round6/%s.md" % p)
print(" ".join(new))
