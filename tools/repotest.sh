#!/bin/sh
# runs the repository's test suite; exit status is the suite's
cd /repo && GOFLAGS=-mod=mod GOPROXY=off GOSUMDB=off go build ./... && GOFLAGS=-mod=mod GOPROXY=off GOSUMDB=off go test -vet=off -count=1 ./... > /tmp/repotest.log 2>&1
rc=$?
grep -v "no test files" /tmp/repotest.log | tail -${1:-6}
exit $rc
