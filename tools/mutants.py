#!/usr/bin/env python3
"""Generates /verif/mutants/<prop>/<kind>-<id>.patch from exact-string edits of /repo's HEAD.

kind = break: the edit violates the property (the check must report it);
kind = keep : the edit preserves behaviour (the check must stay silent).
With --verify each patch is applied to a scratch copy: it must build, and for `break` mutants the
repository's own test suite must still pass (that is what makes them interesting)."""
import os, subprocess, sys, tempfile, shutil, json

M = []
def m(id, props, kind, file, old, new, note=""):
    M.append(dict(id=id, props=props, kind=kind, file=file, old=old, new=new, note=note))

# ---- C03 ------------------------------------------------------------------------------------
m("lookahead-subquery-no-eof", ["C03"], "break", "parser.go",
  "	// ((...(SELECT ...)...) UNION indicates subquery.\n	for p.Token.Kind != token.TokenEOF {",
  "	// ((...(SELECT ...)...) UNION indicates subquery.\n	for {", "unbalanced '(' at end of input spins forever")
m("case-when-continue", ["C03"], "break", "parser.go",
  "	for p.Token.Kind != token.TokenEOF {\n		if p.Token.Kind != \"WHEN\" {\n			break\n		}\n		whens = append(whens, p.parseCaseWhen())",
  "	for p.Token.Kind != \"END\" {\n		if p.Token.Kind != \"WHEN\" {\n			continue\n		}\n		whens = append(whens, p.parseCaseWhen())")
m("quoted-newline-no-advance", ["C03", "C13"], "break", "lexer.go",
  "				hasError = true\n				i++\n				continue\n			}\n			l.panicfAtPosition(token.Pos(l.pos), token.Pos(l.pos+i), \"unclosed %s: newline",
  "				hasError = true\n				continue\n			}\n			l.panicfAtPosition(token.Pos(l.pos), token.Pos(l.pos+i), \"unclosed %s: newline")
m("entry-raise-outside-recovery", ["C03"], "break", "parser.go",
  "func (p *Parser) ParseType() (ast.Type, error) {\n	p.nextTokenRecovering()\n	t := p.parseType()\n",
  "func (p *Parser) ParseType() (ast.Type, error) {\n	p.nextTokenRecovering()\n	t := p.parseType()\n	if p.Token.Kind == \";\" {\n		p.nextToken()\n	}\n")
m("handler-swallows-foreign-panic", ["C03", "C09"], "break", "parser.go",
  "	e, ok := r.(*Error)\n	if !ok {\n		panic(r)\n	}\n\n	p.errors = append(p.errors, e)",
  "	e, ok := r.(*Error)\n	if !ok {\n		return\n	}\n\n	p.errors = append(p.errors, e)")
m("split-if-to-switch", ["C03", "C08"], "keep", "parser.go",
  "func (p *Parser) tryParseWhere() *ast.Where {\n	if p.Token.Kind != \"WHERE\" {\n		return nil\n	}\n	return p.parseWhere()\n}",
  "func (p *Parser) tryParseWhere() *ast.Where {\n	switch p.Token.Kind {\n	case \"WHERE\":\n		return p.parseWhere()\n	}\n	return nil\n}")
# ---- C04 ------------------------------------------------------------------------------------
m("limit-offset-unguarded", ["C04"], "break", "ast/sql.go",
  "	return \"LIMIT \" + l.Count.SQL() +\n		sqlOpt(\" \", l.Offset, \"\")",
  "	return \"LIMIT \" + l.Count.SQL() +\n		\" \" + l.Offset.SQL()")
m("exprprec-missing-json", ["C04", "C07"], "break", "ast/sql.go",
  "*NumericLiteral, *JSONLiteral, *WithExpr,", "*NumericLiteral, *WithExpr,")
m("braced-field-no-default", ["C04", "C05"], "break", "parser.go",
  "	default:\n		p.panicfAtToken(&p.Token, `expected token: \":\", \"{\", but: %s`, p.Token.Kind)\n	}\n	return &ast.BracedConstructorField",
  "	}\n	return &ast.BracedConstructorField")
m("sqlopt-inlined", ["C04"], "keep", "ast/sql.go",
  "func (w *Where) SQL() string {\n	return \"WHERE \" + w.Expr.SQL()\n}",
  "func (w *Where) SQL() string {\n	s := \"WHERE \"\n	s += w.Expr.SQL()\n	return s\n}")
# ---- C05 / C06 ----------------------------------------------------------------------------
m("rparen-after-consume", ["C05", "C06"], "break", "parser.go",
  "	atTimeZone := p.tryParseAtTimeZone()\n	rparen := p.expect(\")\").Pos\n	return &ast.ExtractExpr{\n		Extract:    extract,\n		Rparen:     rparen,",
  "	atTimeZone := p.tryParseAtTimeZone()\n	p.expect(\")\")\n	return &ast.ExtractExpr{\n		Extract:    extract,\n		Rparen:     p.Token.Pos,")
m("cast-pos-is-end", ["C05", "C06"], "break", "parser.go",
  "		cast = p.expectKeywordLike(\"SAFE_CAST\").Pos", "		cast = p.expectKeywordLike(\"SAFE_CAST\").End")
m("forupdate-wrong-length", ["C05", "C06", "C19"], "break", "ast/pos.go",
  "	return posAdd(f.Update, 6)", "	return posAdd(f.Update, 5)")
m("offset-keyword-spec", ["C05", "C06"], "break", "ast/ast.go",
  "	// pos = Offset\n	// end = Value.end", "	// pos = Value.pos\n	// end = Value.end", "spec and generated method changed consistently below")
# ---- C07 ------------------------------------------------------------------------------------
m("addsub-right-assoc", ["C07"], "break", "parser.go",
  "			Op:    op,\n			Right: p.parseMulDiv(),", "			Op:    op,\n			Right: p.parseAddSub(),")
m("neq-maps-to-equal", ["C07"], "break", "parser.go",
  "	case \"!=\", \"<>\":\n		op = ast.OpNotEqual", "	case \"!=\":\n		op = ast.OpNotEqual\n	case \"<>\":\n		op = ast.OpEqual")
m("exprprec-sub-shift", ["C07"], "break", "ast/sql.go",
  "		case OpAdd, OpSub:\n			return precAddSub\n		case OpBitLeftShift, OpBitRightShift:",
  "		case OpAdd:\n			return precAddSub\n		case OpBitLeftShift, OpBitRightShift, OpSub:")
m("paren-unwrapped", ["C07"], "break", "parser.go",
  "		rparen := p.Token.Pos\n		p.nextToken()\n		return &ast.ParenExpr{",
  "		rparen := p.Token.Pos\n		p.nextToken()\n		if _, ok := expr.(*ast.Ident); ok {\n			return expr\n		}\n		return &ast.ParenExpr{")
# ---- C08 / C16 ----------------------------------------------------------------------------
m("dispatch-typo", ["C08"], "break", "parser.go",
  "func (p *Parser) parseCreateVectorIndex(pos token.Pos) *ast.CreateVectorIndex {\n	p.expectKeywordLike(\"VECTOR\")",
  "func (p *Parser) parseCreateVectorIndex(pos token.Pos) *ast.CreateVectorIndex {\n	p.expectKeywordLike(\"VECTORS\")")
m("reserved-as-pseudo", ["C08", "C16"], "break", "parser.go",
  "	case p.Token.Kind == \"IGNORE\":\n			insertOrType = ast.InsertOrTypeIgnore",
  "	case p.Token.IsKeywordLike(\"IGNORE\"):\n			insertOrType = ast.InsertOrTypeIgnore")
m("ddl-not-routed", ["C08"], "break", "parser.go",
  "		p.Token.IsKeywordLike(\"RENAME\") || p.Token.IsKeywordLike(\"GRANT\") || p.Token.IsKeywordLike(\"REVOKE\") ||\n		p.Token.IsKeywordLike(\"ANALYZE\"):",
  "		p.Token.IsKeywordLike(\"RENAME\") || p.Token.IsKeywordLike(\"GRANT\") || p.Token.IsKeywordLike(\"REVOKE\"):")
m("case-sensitive-pseudo-keyword", ["C16"], "break", "parser.go",
  "	case id.IsIdent(\"BERNOULLI\"):", "	case id.Raw == \"BERNOULLI\":")
m("comment-changes-parse", ["C16", "C11"], "break", "parser.go",
  "	if p.Token.Kind == token.TokenIdent {\n		id := p.parseIdent()\n		return &ast.AsAlias{\n			As:    token.InvalidPos,",
  "	if p.Token.Kind == token.TokenIdent && len(p.Token.Comments) == 0 {\n		id := p.parseIdent()\n		return &ast.AsAlias{\n			As:    token.InvalidPos,")
# ---- C09 / C10 / C11 / C12 / C13 ------------------------------------------------------------
m("eof-check-dropped", ["C09"], "break", "parser.go",
  "	t := p.parseType()\n	if p.Token.Kind != token.TokenEOF {\n		p.errors = append(p.errors, p.errorfAtToken(&p.Token, \"expected token: <eof>, but: %s\", p.Token.Kind))\n	}\n",
  "	t := p.parseType()\n")
m("errors-capped", ["C09"], "break", "parser.go",
  "	p.errors = append(p.errors, e)\n	p.Lexer = l", "	if len(p.errors) < 8 {\n		p.errors = append(p.errors, e)\n	}\n	p.Lexer = l")
m("lookahead-records", ["C09"], "break", "parser.go",
  "	if p.Token.Kind != token.TokenIdent {\n		return false\n	}\n\n	p.parseIdent()\n	return p.Token.Kind == \"AS\"",
  "	if p.Token.Kind != token.TokenIdent {\n		return false\n	}\n\n	p.parseIdent()\n	p.parseExpr()\n	return p.Token.Kind == \"AS\"")
m("bad-end-after-advance", ["C10"], "break", "parser.go",
  "		end = p.Token.End\n		tokens = append(tokens, p.Token.Clone())\n		p.Lexer.nextToken(true)\n	}\n\n	return &ast.BadExpr{",
  "		tokens = append(tokens, p.Token.Clone())\n		p.Lexer.nextToken(true)\n		end = p.Token.End\n	}\n\n	return &ast.BadExpr{")
m("bad-alias-live-token", ["C10", "C18"], "break", "parser.go",
  "		end = p.Token.End\n		tokens = append(tokens, p.Token.Clone())\n		p.Lexer.nextToken(true)\n	}\n\n	return &ast.BadNode{",
  "		end = p.Token.End\n		tokens = append(tokens, &p.Token)\n		p.Lexer.nextToken(true)\n	}\n\n	return &ast.BadNode{")
m("number-glue-advances-strict", ["C10"], "break", "lexer.go",
  "			l.Token.Kind = token.TokenBad\n			return\n		}\n\n		l.panicf(\"number literal cannot follow identifier without any spaces\")",
  "			l.Token.Kind = token.TokenBad\n			return\n		}\n		l.skip()\n\n		l.panicf(\"number literal cannot follow identifier without any spaces\")")
m("trailing-comma-eof-only", ["C11"], "break", "parser.go",
  "		if p.Token.Kind == token.TokenEOF || p.Token.Kind == \";\" || p.Token.Kind == \"FROM\" {",
  "		if p.Token.Kind == token.TokenEOF || p.Token.Kind == \"FROM\" {")
m("split-drops-comment", ["C12"], "break", "split.go",
  "			firstPos = lex.Token.Pos\n			if len(lex.Token.Comments) > 0 {\n				firstPos = lex.Token.Comments[0].Pos\n			}\n",
  "			firstPos = lex.Token.Pos\n")
m("split-on-param-sign", ["C12"], "break", "split.go",
  "		if lex.Token.Kind == \";\" {\n			result = append", "		if lex.Token.Kind == \";\" || lex.Token.Kind == \"$\" {\n			result = append")
m("space-lost-after-comment", ["C13"], "break", "lexer.go",
  "	l.Token.Space = space\n", "	if len(l.Token.Comments) == 0 {\n		l.Token.Space = space\n	}\n")
m("pos-via-local", ["C13"], "keep", "lexer.go",
  "	l.Token.Pos = token.Pos(l.pos)\n	i := l.pos\n	if l.dotIdent {", "	i := l.pos\n	l.Token.Pos = token.Pos(i)\n	if l.dotIdent {")
# ---- C14 / C15 ---------------------------------------------------------------------------
m("escape-v-is-f", ["C14", "C15"], "break", "lexer.go",
  "			case 'v':\n				content = append(content, '\\v')", "			case 'v':\n				content = append(content, '\\f')")
m("octal-4", ["C14"], "break", "lexer.go", "			case '0', '1', '2', '3':", "			case '0', '1', '2', '3', '4':")
m("hex-F-excluded", ["C14"], "break", "char/is.go", "'A' <= c && c <= 'F'", "'A' <= c && c < 'F'")
m("dotident-after-rbrace", ["C14"], "break", "lexer.go",
  "	case token.TokenIdent, token.TokenParam, \")\", \"]\":", "	case token.TokenIdent, token.TokenParam, \")\", \"]\", \"}\":")
m("keyword-removed", ["C14", "C08"], "break", "token/keywords.go", "	\"TREAT\",\n", "")
m("quote-no-backslash", ["C15"], "break", "token/quote.go", "	case r == '\\\\':\n		return `\\\\`\n", "")
m("quote-u-for-big", ["C15"], "break", "token/quote.go", "		case r > 0xFFFF:", "		case r > 0xFFFFF:")
m("ident-start-unchecked", ["C15"], "break", "token/quote.go",
  "	if !char.IsIdentStart(s[0]) {\n		return true\n	}\n", "")
# ---- C17 / C18 / C19 -----------------------------------------------------------------------
m("walk-wrong-field-name", ["C17", "C19"], "break", "ast/walk_internal.go",
  "&stackItem{node: wrapNode(n.Where), visitor: v.Field(\"Where\")})\n		stack = append(stack, &stackItem{node: wrapNode(n.From), visitor: v.Field(\"From\")})",
  "&stackItem{node: wrapNode(n.Where), visitor: v.Field(\"From\")})\n		stack = append(stack, &stackItem{node: wrapNode(n.From), visitor: v.Field(\"Where\")})")
m("walk-ascending-siblings", ["C17"], "break", "ast/walk.go",
  "			for i := len(last.nodes) - 1; i >= 0; i-- {", "			for i := len(last.nodes) - 1; i > 0; i-- {")
m("keyword-cache", ["C18"], "break", "token/keywords.go",
  "func IsKeyword(s string) bool {\n	_, ok := KeywordsMap[TokenKind(char.ToUpper(s))]\n	return ok\n}",
  "var lastKeyword string\n\nfunc IsKeyword(s string) bool {\n	lastKeyword = s\n	_, ok := KeywordsMap[TokenKind(char.ToUpper(s))]\n	return ok\n}")
m("pos-hand-edit", ["C19"], "break", "ast/pos.go",
  "func (h *Hint) End() token.Pos {\n	return posAdd(h.Rbrace, 1)\n}", "func (h *Hint) End() token.Pos {\n	return h.Rbrace\n}")
m("poschoice-last-valid", ["C19", "C05"], "break", "ast/pos_util.go",
  "	for _, p := range ps {\n		if !p.Invalid() {\n			return p\n		}\n	}\n	return token.InvalidPos",
  "	r := token.InvalidPos\n	for _, p := range ps {\n		if !p.Invalid() {\n			r = p\n		}\n	}\n	return r")
# ---- C01 / C02 -----------------------------------------------------------------------------
m("misspelt-keyword", ["C01"], "break", "ast/sql.go", "	return \"TABLESAMPLE \" + string(t.Method)", "	return \"TABLE SAMPLE \" + string(t.Method)")
m("join-separator", ["C01"], "break", "ast/sql.go", "func (u *Using) SQL() string {\n	return \"USING (\" + sqlJoin(u.Idents, \", \") + \")\"",
  "func (u *Using) SQL() string {\n	return \"USING (\" + sqlJoin(u.Idents, \" \") + \")\"")
m("required-paren-dropped", ["C01", "C02"], "break", "ast/sql.go", "	return c.Name.SQL() + \" AS (\" + c.QueryExpr.SQL() + \")\"", "	return c.Name.SQL() + \" AS \" + c.QueryExpr.SQL()")
m("hint-not-printed", ["C02"], "break", "ast/sql.go", "		\")\" +\n		sqlOpt(\" \", c.Hint, \"\") +\n		sqlOpt(\" \", c.Sample, \"\")", "		\")\" +\n		sqlOpt(\" \", c.Sample, \"\")")
m("distinct-skipped", ["C02"], "break", "parser.go",
  "	distinct := false\n	if p.Token.Kind == \"DISTINCT\" {\n		p.nextToken()\n		distinct = true\n	}",
  "	distinct := false\n	if p.Token.Kind == \"DISTINCT\" {\n		p.nextToken()\n	}")
m("as-flag-ignored", ["C02"], "break", "ast/sql.go", "	return strOpt(!a.As.Invalid(), \"AS \") + a.Alias.SQL()", "	return \"AS \" + a.Alias.SQL()")

# ---- byte-level bounds (C03/R6) and comment scanning (C14/R8) -----------------------------------
m("escape-digit-loop-continue", ["C03"], "break", "lexer.go",
  "					if !(l.peekOk(i+j) && char.IsHexDigit(l.peek(i+j))) {\n						if noPanic {\n							hasError = true\n							continue scan\n						}\n						l.panicfAtPosition(token.Pos(l.pos+i-2), token.Pos(l.pos+i+j+1), \"invalid escape sequence: hex",
  "					if !(l.peekOk(i+j) && char.IsHexDigit(l.peek(i+j))) {\n						if noPanic {\n							hasError = true\n							continue\n						}\n						l.panicfAtPosition(token.Pos(l.pos+i-2), token.Pos(l.pos+i+j+1), \"invalid escape sequence: hex",
  "reverts a048bd0 for the hex escape: \"\\x4 at <eof> leaves the cursor past the buffer in recovering mode")
m("error-end-not-clamped", ["C03"], "break", "lexer.go",
  "	if int(end) > len(l.Buffer) {\n		end = token.Pos(len(l.Buffer))\n	}\n", "", "reverts 2fb90ee")
m("dot-digit-without-peekok", ["C03"], "break", "lexer.go",
  "		if !nextDotIdent && l.peekOk(1) && char.IsDigit(l.peek(1)) {", "		if !nextDotIdent && char.IsDigit(l.peek(1)) {",
  "a lone '.' at end of input indexes past the buffer")
m("hash-comment-skips-two", ["C03", "C16"], "break", "lexer.go",
  "	case r == '#':\n		return l.skipCommentUntil(1, \"\\n\", false, noPanic)",
  "	case r == '#':\n		return l.skipCommentUntil(2, \"\\n\", false, noPanic)",
  "'#' is one byte: the byte after it is skipped unexamined and '#' as the last byte moves the cursor past the end")
m("comment-scan-inplace", ["C03", "C14", "C11", "C12", "C16"], "keep", "lexer.go",
  "	for !l.eof() {\n		if l.slice(0, len(end)) == end {\n			l.skipN(len(end))\n			return false\n		}\n		l.skip()\n	}\n	if mustEnd {",
  "	for last := len(l.Buffer) - len(end); l.pos <= last; l.pos++ {\n		if l.Buffer[l.pos:l.pos+len(end)] == end {\n			l.skipN(len(end))\n			return false\n		}\n	}\n	l.pos = len(l.Buffer)\n	if mustEnd {",
  "a correct in-place rewrite of the terminator search")
m("comment-scan-offbyone", ["C14", "C11", "C12", "C16"], "break", "lexer.go",
  "	for !l.eof() {\n		if l.slice(0, len(end)) == end {\n			l.skipN(len(end))\n			return false\n		}\n		l.skip()\n	}\n	if mustEnd {",
  "	for last := len(l.Buffer) - len(end); l.pos < last; l.pos++ {\n		if l.Buffer[l.pos:l.pos+len(end)] == end {\n			l.skipN(len(end))\n			return false\n		}\n	}\n	l.pos = len(l.Buffer)\n	if mustEnd {",
  "the last position where the terminator fits is never examined: a block comment ending exactly at end of input is 'unclosed'")
m("quote-index-after-advance", ["C03", "C15"], "break", "token/quote.go",
  "		r, size := utf8.DecodeRuneInString(s[i:])\n		if r == utf8.RuneError && size == 1 {",
  "		r, size := utf8.DecodeRuneInString(s[i:])\n		i += size\n		if r == utf8.RuneError && size == 1 {",
  "s[i] is read after i was advanced (the later `i++`/`i += size` are left in place: also skips bytes)")
m("skipspaces-skips-size-minus-one", ["C03"], "break", "lexer.go",
  "		case unicode.IsSpace(r):\n			l.skipN(size)", "		case unicode.IsSpace(r):\n			l.skipN(size - 1)",
  "a one-byte space is never skipped: skipSpaces spins (the call skipN is still there, only the measure tells)")
m("comment-loop-break-condition", ["C03"], "break", "lexer.go",
  "		if l.pos == i {\n			break\n		}\n		l.Token.Comments = append(", "		if l.pos < i {\n			break\n		}\n		l.Token.Comments = append(",
  "the comment loop of nextToken no longer stops when nothing was skipped")
# ---- behaviour-preserving rewrites of the lexer (must stay silent) ---------------------------------
LEXKEEP = ["C03", "C13", "C14"]
m("lexer-ident-loop-break", LEXKEEP, "keep", "lexer.go",
  "		i := 0\n		for l.peekOk(i) && char.IsIdentPart(l.peek(i)) {\n			i++\n		}\n		l.Token.Kind = token.TokenIdent\n		l.Token.AsString = l.Buffer[l.pos : l.pos+i]",
  "		i := 0\n		for ; l.peekOk(i); i++ {\n			if !char.IsIdentPart(l.peek(i)) {\n				break\n			}\n		}\n		l.Token.Kind = token.TokenIdent\n		l.Token.AsString = l.Buffer[l.pos : l.pos+i]")
m("lexer-skip-twice", LEXKEEP, "keep", "lexer.go",
  "		case l.peekIs(1, '<'):\n			l.skipN(2)\n			l.Token.Kind = \"<<\"",
  "		case l.peekIs(1, '<'):\n			l.skip()\n			l.skip()\n			l.Token.Kind = \"<<\"")
m("lexer-peekis-via-peekok", LEXKEEP, "keep", "lexer.go",
  "	return l.pos+i < len(l.Buffer) && l.Buffer[l.pos+i] == c", "	return l.peekOk(i) && l.peek(i) == c")
m("lexer-eof-via-peekok", LEXKEEP, "keep", "lexer.go",
  "func (l *Lexer) eof() bool {\n	return l.pos >= len(l.Buffer)\n}", "func (l *Lexer) eof() bool {\n	return !l.peekOk(0)\n}")
m("lexer-skipspaces-direct", LEXKEEP, "keep", "lexer.go",
  "func (l *Lexer) skipSpaces() {\n	for !l.eof() {", "func (l *Lexer) skipSpaces() {\n	for l.pos < len(l.Buffer) {")
m("lexer-token-pos-via-local", LEXKEEP, "keep", "lexer.go",
  "	l.Token.Pos = token.Pos(l.pos)\n	i := l.pos\n	if l.dotIdent {", "	i := l.pos\n	l.Token.Pos = token.Pos(i)\n	if l.dotIdent {")
m("lexer-slice-min", LEXKEEP, "keep", "lexer.go",
  "	if len(l.Buffer) < l.pos+end {\n		end = len(l.Buffer) - l.pos\n	}\n	return string(l.Buffer[l.pos+start : l.pos+end])",
  "	end = min(end, len(l.Buffer)-l.pos)\n	return string(l.Buffer[l.pos+start : l.pos+end])")
m("lexer-comment-end-from-raw", LEXKEEP, "keep", "lexer.go",
  "			Raw:   l.Buffer[i:l.pos],\n			Pos:   token.Pos(i),\n			End:   token.Pos(l.pos),",
  "			Raw:   l.Buffer[i:l.pos],\n			Pos:   token.Pos(i),\n			End:   token.Pos(i + len(l.Buffer[i:l.pos])),")


# ---- rules added after the second sub-agent round: rewrites that must stay silent, and one break each ----------
m("badnode-sep-by-sum", ["C10"], "keep", "ast/sql.go",
  "		if sql != \"\" && (len(tok.Space) > 0 || len(tok.Comments) > 0) {",
  "		if n := len(tok.Space) + len(tok.Comments); sql != \"\" && n > 0 {")
m("badnode-sep-space-only", ["C10"], "break", "ast/sql.go",
  "		if sql != \"\" && (len(tok.Space) > 0 || len(tok.Comments) > 0) {",
  "		if sql != \"\" && len(tok.Space) > 0 {")
m("lookahead-namedarg-nexttoken", ["C08"], "keep", "parser.go",
  "	if p.Token.Kind != token.TokenIdent {\n		return false\n	}\n	p.parseIdent()\n	return p.Token.Kind == \"=>\"",
  "	if p.Token.Kind != token.TokenIdent {\n		return false\n	}\n	p.nextToken()\n	return p.Token.Kind == \"=>\"")
m("lookahead-namedarg-unguarded", ["C08"], "break", "parser.go",
  "	if p.Token.Kind != token.TokenIdent {\n		return false\n	}\n	p.parseIdent()\n	return p.Token.Kind == \"=>\"",
  "	p.parseIdent()\n	return p.Token.Kind == \"=>\"", "the suite has no call whose first argument is not an identifier?")
m("exprprec-reordered", ["C07", "C01", "C02"], "keep", "ast/sql.go",
  "*DateLiteral, *TimestampLiteral, *NumericLiteral, *JSONLiteral, *WithExpr,",
  "*JSONLiteral, *NumericLiteral, *TimestampLiteral, *DateLiteral, *WithExpr,")
m("param-skip-by-name-length", ["C05", "C06", "C13"], "keep", "lexer.go",
  "			l.Token.Kind = token.TokenParam\n			l.Token.AsString = l.Buffer[l.pos+1 : l.pos+i]\n			l.skipN(i)",
  "			l.Token.Kind = token.TokenParam\n			name := l.Buffer[l.pos+1 : l.pos+i]\n			l.Token.AsString = name\n			l.skipN(len(name) + 1)")
m("param-name-drops-last-byte", ["C05", "C06"], "break", "lexer.go",
  "			l.Token.AsString = l.Buffer[l.pos+1 : l.pos+i]\n			l.skipN(i)",
  "			l.Token.AsString = l.Buffer[l.pos+1 : l.pos+i-1]\n			l.skipN(i)", "suite has params; expected suite-FAIL")
m("position-count-max", ["C03"], "keep", "token/file.go",
  "		count := endColumn - column - 1\n		if count < 0 {\n			count = 0\n		}",
  "		count := max(0, endColumn-column-1)")
m("position-count-unclamped", ["C03"], "break", "token/file.go",
  "		count := endColumn - column - 1\n		if count < 0 {\n			count = 0\n		}",
  "		count := endColumn - column - 1")
m("skipspaces-ascii-fastpath", ["C13", "C14", "C03"], "keep", "lexer.go",
  "	for !l.eof() {\n		r, size := utf8.DecodeRuneInString(l.Buffer[l.pos:])",
  "	for !l.eof() {\n		if c := l.peek(0); c == ' ' || c == '\\n' || c == '\\t' || c == '\\r' {\n			l.skip()\n			continue\n		}\n		r, size := utf8.DecodeRuneInString(l.Buffer[l.pos:])")
m("selector-sep-always-for-digits", ["C01"], "keep", "ast/sql.go",
  "	expr := paren(p, s.Expr)\n	return expr + dotSep(expr) + \".\" + s.Ident.SQL()",
  "	expr := paren(p, s.Expr)\n	sep := dotSep(expr)\n	return expr + sep + \".\" + s.Ident.SQL()")
m("selector-no-sep", ["C01"], "break", "ast/sql.go",
  "	expr := paren(p, s.Expr)\n	return expr + dotSep(expr) + \".\" + s.Ident.SQL()",
  "	return paren(p, s.Expr) + \".\" + s.Ident.SQL()")
m("errmsg-formats-node", ["C18"], "break", "parser.go",
  "		p.panicfAtToken(&p.Token, `expect '{' or '(', but %v`, p.Token.Kind)",
  "		p.panicfAtToken(&p.Token, `expect '{' or '(' after %v, but %v`, namedType, p.Token.Kind)")
m("errmsg-formats-sql", ["C18"], "keep", "parser.go",
  "		p.panicfAtToken(&p.Token, `expect '{' or '(', but %v`, p.Token.Kind)",
  "		p.panicfAtToken(&p.Token, `expect '{' or '(' after %v, but %v`, namedType.SQL(), p.Token.Kind)")
m("number-early-return", ["C03", "C13"], "break", "lexer.go",
  "	l.skipN(i)\n	if int {\n		l.Token.Kind = token.TokenInt",
  "	if noPanic && i == 0 {\n		l.Token.Kind = token.TokenBad\n		return\n	}\n	l.skipN(i)\n	if int {\n		l.Token.Kind = token.TokenInt")
m("subquery-lookahead-drops-limit", ["C08"], "break", "parser.go",
  "	case \"UNION\", \"INTERSECT\", \"EXCEPT\", \"ORDER\", \"LIMIT\", \"FOR\", \"|>\":",
  "	case \"UNION\", \"INTERSECT\", \"EXCEPT\", \"ORDER\", \"FOR\", \"|>\":")

m("error-range-swapped", ["C09"], "break", "lexer.go",
  "l.panicfAtPosition(pos, token.Pos(l.pos), \"unclosed comment\")",
  "l.panicfAtPosition(token.Pos(l.pos), pos, \"unclosed comment\")", "Position.Pos > Position.End for an unclosed comment")


# ---- C20 ------------------------------------------------------------------------------------
m("position-endcolumn-from-pos", ["C20"], "break", "token/file.go",
  "		EndColumn: endColumn,", "		EndColumn: column,")
m("position-string-column-zero-based", ["C20"], "break", "token/file.go",
  "pos.FilePath, pos.Line+1, pos.Column+1)", "pos.FilePath, pos.Line+1, pos.Column)")
m("resolvepos-strict-compare", ["C20"], "break", "token/file.go",
  "		if linePos <= pos {", "		if linePos < pos {")
m("linetable-crlf", ["C20"], "break", "token/file.go",
  "strings.Split(f.Buffer, \"\\n\")", "strings.Split(f.Buffer, \"\\r\\n\")")
m("linetable-no-newline-byte", ["C20"], "break", "token/file.go",
  "lines = append(lines, Pos(int(lines[i])+len(line)+1))", "lines = append(lines, Pos(int(lines[i])+len(line)))")
m("excerpt-keeps-newline", ["C20"], "break", "token/file.go",
  "		lineBuffer := f.Buffer[f.lines[line] : f.lines[line+1]-1]\n		count := endColumn - column - 1",
  "		lineBuffer := f.Buffer[f.lines[line]:f.lines[line+1]]\n		count := endColumn - column - 1")
m("resolvepos-flipped-compare", ["C20"], "keep", "token/file.go",
  "		if linePos <= pos {", "		if pos >= linePos {")
m("position-string-locals", ["C20"], "keep", "token/file.go",
  "	return fmt.Sprintf(\"%s:%d:%d\", pos.FilePath, pos.Line+1, pos.Column+1)",
  "	line, column := pos.Line+1, pos.Column+1\n	return fmt.Sprintf(\"%s:%d:%d\", pos.FilePath, line, column)")
m("resolvepos-continue-form", ["C20"], "keep", "token/file.go",
  "		if linePos <= pos {\n			column = int(pos - linePos)\n			return\n		}",
  "		if linePos > pos {\n			continue\n		}\n		column = int(pos - linePos)\n		return")


m("compound-guard-two-ifs", ["C02"], "keep", "parser.go",
  "			if !(c.Op == op && c.AllOrDistinct == allOrDistinct) {\n				p.panicfAtToken(&opTok, \"all set operator at the same level must be the same, or wrap (...)\")\n			}",
  "			if c.Op != op {\n				p.panicfAtToken(&opTok, \"all set operator at the same level must be the same, or wrap (...)\")\n			}\n			if c.AllOrDistinct != allOrDistinct {\n				p.panicfAtToken(&opTok, \"all set operator at the same level must be the same, or wrap (...)\")\n			}")
m("compound-guard-op-only", ["C02"], "break", "parser.go",
  "			if !(c.Op == op && c.AllOrDistinct == allOrDistinct) {", "			if c.Op != op {")


m("unicode-escape-ascii-fastpath", ["C14", "C15", "C01"], "keep", "lexer.go",
  "				var buf [utf8.MaxRune]byte\n				n := utf8.EncodeRune(buf[:], rune(u))\n				content = append(content, buf[:n]...)",
  "				if u < 0x80 {\n					content = append(content, byte(u))\n				} else {\n					var buf [utf8.UTFMax]byte\n					n := utf8.EncodeRune(buf[:], rune(u))\n					content = append(content, buf[:n]...)\n				}")
m("unicode-escape-latin1-fastpath", ["C14", "C15"], "break", "lexer.go",
  "				var buf [utf8.MaxRune]byte\n				n := utf8.EncodeRune(buf[:], rune(u))\n				content = append(content, buf[:n]...)",
  "				if u <= 0xFF {\n					content = append(content, byte(u))\n				} else {\n					var buf [utf8.UTFMax]byte\n					n := utf8.EncodeRune(buf[:], rune(u))\n					content = append(content, buf[:n]...)\n				}")


m("operator-skip-zero", ["C13", "C03"], "break", "lexer.go",
  "		case l.peekIs(1, '<'):\n			l.skipN(2)\n			l.Token.Kind = \"<<\"",
  "		case l.peekIs(1, '<'):\n			l.skipN(2)\n			l.Token.Kind = \"<<\"\n		case l.peekIs(1, '\\x00'):\n			l.Token.Kind = token.TokenBad", "a new arm that forgets to consume: an empty <bad> token, the recovery loops spin")
m("ident-scan-from-one", ["C13"], "keep", "lexer.go",
  "	if char.IsIdentStart(l.peek(0)) {\n		i := 0\n		for l.peekOk(i) && char.IsIdentPart(l.peek(i)) {",
  "	if char.IsIdentStart(l.peek(0)) {\n		i := 1\n		for l.peekOk(i) && char.IsIdentPart(l.peek(i)) {")


m("number-follow-check-dropped", ["C14"], "break", "lexer.go",
  "	if l.peekOk(0) && char.IsIdentPart(l.peek(0)) {\n		if noPanic {\n			l.Token.Kind = token.TokenBad\n			return\n		}\n\n		l.panicf(\"number literal cannot follow identifier without any spaces\")\n	}\n}",
  "}", "1from lexes as <int> FROM")
m("number-follow-check-via-local", ["C14"], "keep", "lexer.go",
  "	if l.peekOk(0) && char.IsIdentPart(l.peek(0)) {\n		if noPanic {\n			l.Token.Kind = token.TokenBad",
  "	if glued := l.peekOk(0) && char.IsIdentPart(l.peek(0)); glued {\n		if noPanic {\n			l.Token.Kind = token.TokenBad")


m("direction-asc-recorded-desc", ["C02"], "break", "parser.go",
  "		dirPos = p.expect(\"ASC\").Pos\n		dir = ast.DirectionAsc",
  "		dirPos = p.expect(\"ASC\").Pos\n		dir = ast.DirectionDesc", "round-trips; the suite has ORDER BY ... ASC? expected suite-FAIL")
m("setop-except-recorded-intersect", ["C02"], "break", "parser.go",
  "		case \"EXCEPT\":\n			op = ast.SetOpExcept", "		case \"EXCEPT\":\n			op = ast.SetOpIntersect")

m("hex-prefix-accepted", ["C14"], "break", "lexer.go",
  "	if base == 16 && i == 2 {\n		// \"0x\" alone is not an integer literal, at least one hex digit has to follow the prefix.\n		if noPanic {\n			l.skipN(i)\n			l.Token.Kind = token.TokenBad\n			return\n		}\n		l.panicfAtPosition(token.Pos(l.pos), token.Pos(l.pos+i), \"invalid hex integer literal: no digits after %q\", l.slice(0, i))\n	}\n\n",
  "", "reverts 7adf3ac: 0x lexes as <int>")
m("hex-prefix-check-off-by-one", ["C14"], "break", "lexer.go",
  "	if base == 16 && i == 2 {\n		// \"0x\"", "	if base == 16 && i < 2 {\n		// \"0x\"", "the check never fires")
m("hex-prefix-check-le", ["C14", "C13", "C03"], "keep", "lexer.go",
  "	if base == 16 && i == 2 {\n		// \"0x\"", "	if base == 16 && i <= 2 {\n		// \"0x\"")

# ---- C04/R3 (bounds of the consumers, LEXBOUNDS over package ast) ---------------------------------
m("nodeslicelast-guard-dropped", ["C04"], "break", "ast/pos_util.go",
  "func nodeSliceLast[T Node](ns []T) Node {\n	if len(ns) == 0 {\n		return nil\n	}\n\n	return ns[len(ns)-1]",
  "func nodeSliceLast[T Node](ns []T) Node {\n	return ns[len(ns)-1]", "End() of a node whose list is empty panics")
m("nodesliceindex-guard-is-nil-test", ["C04"], "break", "ast/pos_util.go",
  "func nodeSliceIndex[T Node](ns []T, i int) Node {\n	if len(ns) == 0 {",
  "func nodeSliceIndex[T Node](ns []T, i int) Node {\n	if ns == nil {", "an empty non-nil list (trailing-comma recoveries) indexes out of range")
m("nodeslicelast-via-index", ["C04", "C05"], "keep", "ast/pos_util.go",
  "	return ns[len(ns)-1]\n}", "	last := len(ns) - 1\n	return ns[last:][0]\n}")
m("badnode-sql-index-loop", ["C04", "C10"], "keep", "ast/sql.go",
  "	for _, tok := range b.Tokens {\n		if sql != \"\" && (len(tok.Space) > 0 || len(tok.Comments) > 0) {",
  "	for i := 0; i < len(b.Tokens); i++ {\n		tok := b.Tokens[i]\n		if sql != \"\" && (len(tok.Space) > 0 || len(tok.Comments) > 0) {")
m("badnode-sql-index-loop-off-by-one", ["C04"], "break", "ast/sql.go",
  "	for _, tok := range b.Tokens {\n		if sql != \"\" && (len(tok.Space) > 0 || len(tok.Comments) > 0) {",
  "	for i := 0; i <= len(b.Tokens)-1; i++ {\n		tok := b.Tokens[i+1]\n		if sql != \"\" && (len(tok.Space) > 0 || len(tok.Comments) > 0) {", "expected suite-FAIL? Bad nodes are printed by the suite")

# ---- rules of the keep round / round 5 -------------------------------------------------------------
m("preorder-yield-not-latched", ["C17"], "break", "ast/walk.go",
  "			ok = ok && yield(n)\n			return ok\n		})\n	}\n}\n\n// PreorderMany",
  "			ok = yield(n)\n			return ok\n		})\n	}\n}\n\n// PreorderMany", "yield is called again after it returned false (range-over-func panics)")
m("param-name-starts-with-digit", ["C14"], "break", "lexer.go",
  "		if l.peekOk(1) && char.IsIdentStart(l.peek(1)) {\n			i := 1",
  "		if l.peekOk(1) && char.IsIdentPart(l.peek(1)) {\n			i := 1", "@1 lexes as a parameter")
m("quoteident-on-any-token", ["C03"], "break", "parser.go",
  "		panic(p.errorfAtToken(&p.Token, \"unknown constraint %s\", p.Token.AsString))",
  "		panic(p.errorfAtToken(&p.Token, \"unknown constraint %s\", token.QuoteSQLIdent(p.Token.AsString)))", "index out of range on a keyword or <eof>")
m("walk-depth-limit", ["C17"], "break", "ast/walk.go",
  "		last := stack[len(stack)-1]\n		stack = stack[:len(stack)-1]\n",
  "		last := stack[len(stack)-1]\n		stack = stack[:len(stack)-1]\n		if len(stack) > 100000 {\n			continue\n		}\n", "a size limit drops subtrees")

m("dash-comment-single", ["C14"], "break", "lexer.go",
  "r == '/' && l.peekIs(1, '/') || r == '-' && l.peekIs(1, '-'):", "r == '/' && l.peekIs(1, '/') || r == '-':", "a single '-' opens a line comment")
m("block-comment-unclosed-ok", ["C14"], "break", "lexer.go",
  "		return l.skipCommentUntil(2, \"*/\", true, noPanic)", "		return l.skipCommentUntil(2, \"*/\", false, noPanic)", "an unclosed /* runs to the end of input without an error")
m("dotident-from-new-token", ["C14"], "break", "lexer.go",
  "		nextDotIdent := isNextDotIdent(l.lastTokenKind)", "		nextDotIdent := isNextDotIdent(l.Token.Kind)", "the dot-identifier mode asks the token that was just reset")

# round 6
m("spaces-four-only", ["C16"], "break", "lexer.go",
  "		case unicode.IsSpace(r):\n			l.skipN(size)", "		case unicode.IsSpace(r) && r != '\\v' && r != '\\f':\n			l.skipN(size)", "form feed and vertical tab are no longer white space")
m("spaces-underscore", ["C16", "C13"], "break", "lexer.go",
  "		case unicode.IsSpace(r):\n			l.skipN(size)", "		case unicode.IsSpace(r) || r == 0x1f:\n			l.skipN(size)", "the unit separator 0x1f is skipped as white space")
m("spaces-trimleft", ["C16", "C13"], "keep", "lexer.go",
  "	for !l.eof() {\n		r, size := utf8.DecodeRuneInString(l.Buffer[l.pos:])\n		switch {\n		case unicode.IsSpace(r):\n			l.skipN(size)\n		default:\n			return\n		}\n	}\n}\n\nfunc (l *Lexer) skipComment",
  "	for !l.eof() {\n		r, size := utf8.DecodeRuneInString(l.Buffer[l.pos:])\n		if !unicode.IsSpace(r) {\n			return\n		}\n		l.skipN(size)\n	}\n}\n\nfunc (l *Lexer) skipComment", "the same loop written with an early return")
m("selector-peek-star", ["C16", "C08"], "break", "parser.go",
  "			lexer := p.Lexer.Clone()\n			p.nextToken()\n			if p.Token.Kind == \"*\" { // expr.* case\n				p.Lexer = lexer\n				return expr\n			}\n",
  "			if p.Lexer.peekIs(0, '*') { // expr.* case\n				return expr\n			}\n			p.nextToken()\n", "the byte behind '.' decides, not the next token")

def sh(cmd, cwd=None):
    return subprocess.run(cmd, shell=True, cwd=cwd, capture_output=True, text=True)

def main():
    verify = "--verify" in sys.argv
    out = "/verif/mutants"
    global OLD, SAVED
    OLD = {}
    if os.path.exists(out + "/INDEX.json"):
        OLD = {e["id"]: e for e in json.load(open(out + "/INDEX.json"))}
    SAVED = tempfile.mkdtemp(prefix="mutold.", dir="/tmp")
    for d in os.listdir(out) if os.path.isdir(out) else []:
        if os.path.isdir(os.path.join(out, d)):
            shutil.copytree(os.path.join(out, d), os.path.join(SAVED, d))
            shutil.rmtree(os.path.join(out, d))
    env = "GOFLAGS=-mod=mod GOPROXY=off GOSUMDB=off"
    summary = []
    for mu in M:
        src = open(os.path.join("/repo", mu["file"])).read()
        if src.count(mu["old"]) != 1:
            print("SKIP (anchor not unique: %d) %s" % (src.count(mu["old"]), mu["id"])); continue
        new = src.replace(mu["old"], mu["new"])
        extra = []
        if mu["id"] == "offset-keyword-spec":
            p = open("/repo/ast/pos.go").read()
            o = "func (o *Offset) Pos() token.Pos {\n	return o.Offset\n}"
            assert p.count(o) == 1
            extra.append(("ast/pos.go", p, p.replace(o, "func (o *Offset) Pos() token.Pos {\n	return nodePos(wrapNode(o.Value))\n}")))
        t = tempfile.mkdtemp(prefix="mut.", dir=os.environ.get("TMPDIR", "/tmp"))
        try:
            files = [(mu["file"], src, new)] + extra
            patch = ""
            for f, a, b in files:
                os.makedirs(os.path.join(t, "a", os.path.dirname(f)), exist_ok=True)
                os.makedirs(os.path.join(t, "b", os.path.dirname(f)), exist_ok=True)
                open(os.path.join(t, "a", f), "w").write(a); open(os.path.join(t, "b", f), "w").write(b)
                patch += sh("diff -u a/%s b/%s" % (f, f), cwd=t).stdout
            status = ""
            prev = OLD.get(mu["id"])
            oldpatch = os.path.join(SAVED, mu["props"][0], "%s-%s.patch" % (mu["kind"], mu["id"]))
            same = False
            if prev and prev.get("suite") and os.path.exists(oldpatch):
                strip = lambda t: "\n".join(l for l in t.split("\n") if not l.startswith(("--- ", "+++ ")))
                same = strip(open(oldpatch).read()) == strip(patch)
            if verify and same:
                status = prev["suite"]  # the same change as last time: its suite verdict stands
            elif verify:
                sh("rsync -a --exclude .git /repo/ %s/repo/" % t)
                for f, a, b in files:
                    open(os.path.join(t, "repo", f), "w").write(b)
                r = sh("%s go build ./... " % env, cwd=t + "/repo")
                if r.returncode != 0:
                    print("BUILD-FAIL", mu["id"], r.stderr[:300]); continue
                r = sh("%s timeout 200 go test -vet=off -count=1 -timeout 150s ./... " % env, cwd=t + "/repo")
                status = "suite-pass" if r.returncode == 0 else "suite-FAIL"
            for p in mu["props"]:
                os.makedirs(os.path.join(out, p), exist_ok=True)
                open(os.path.join(out, p, "%s-%s.patch" % (mu["kind"], mu["id"])), "w").write(patch)
            summary.append((mu["id"], mu["kind"], ",".join(mu["props"]), status))
            print(mu["id"], mu["kind"], mu["props"], status)
        finally:
            shutil.rmtree(t)
    json.dump([dict(id=a, kind=b, props=c, suite=d) for a, b, c, d in summary], open(os.path.join(out, "INDEX.json"), "w"), indent=1)
    shutil.rmtree(SAVED, ignore_errors=True)

if __name__ == "__main__":
    main()
